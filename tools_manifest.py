#!/usr/bin/env python3
"""Regenerates MANIFEST.json from the property modules (so that the claimed
levels, techniques and commands stay in one place)."""
import json, os, sys
sys.path.insert(0, os.path.dirname(os.path.abspath(__file__)))

CLAIMS = {
 'C01': ('exploration', '3 C01',
  'Seeded search over generated well-typed sequential programs x argv x word size x stack (generous and measured minimum) x poisoned free stack; every output byte and flag of the real compiler\'s code, executed on the simulated Sphinx machine, is compared with an independent source-level reference interpreter; all monitors run.',
  'SVM is a home-made stub of the Sphinx emulator calibrated on upstream tests/test_codegen.py (52/52) and the README examples; reference model is my reading of the README; sampling, not proof.',
  'deterministic simulation: seeded program/input/config generation, emitted code stepped on a simulated machine with rollback oracle, differential oracle vs reference model'),
 'C02': ('exploration', '3 C02',
  'Seeded time-travel programs (try/undo, try/stop also in loops and left by break/continue/return, handlers containing tries, preempt in try bodies and in defeat functions incl. recursive and preemptive ones, ?? with side-effecting operands, you-helpers) run on the simulated machine whose Turing-jump oracle explores choice/rollback schedules; the committed history must equal that of a reference interpreter that resolves the source-level choice points by newest-first backtracking. Histories of consecutive tries (canary try/undo after each try) make a stale handler observable. Checked and unchecked builds, poisoned free stack.',
  'Two independent searches (machine-level tree with a choice at every branch vs source-level tree) must agree; both are mine, neither is spasm. Budget-exceeding searches are counted and not judged.',
  'deterministic simulation: rollback oracle explores speculative timelines; seeded program/history generation; refinement check against a backtracking reference model'),
 'C03': ('exploration', '3 C03',
  'Invariant "no halt with an empty choice stack, pc never leaves the code, no machine fault" checked at every step of every run of the broadest program mix (time travel, sequential, planted runtime faults and their harmless twins, exit-analysis shapes, scope/array programs), checked builds at generous and at seeded tiny stacks (runtime faults must end in their error loops, exhaustion in stack_overflow) and unchecked builds of fault-free runs; evidence counts the halts that were reached speculatively and averted.',
  'A committed halt is defined by the SVM oracle (newest-first rollback, cycle detection = runs forever); BUDGET runs are inconclusive and counted.',
  'deterministic simulation: per-step invariant on the simulated machine under seeded programs, inputs, build options and resource/fault injection'),
 'C04': ('fault_enumeration', '3 C04',
  'For each array-heavy (or time-travel, or fault-planted) program the stack-size axis is enumerated completely: every size from 0 words to the first completing size N plus two (window enumeration plus seeded sizes when N > 90), each run with freshly poisoned free stack and scratch registers. At every size the memory monitor (live ap/fp, array extents, provenance tags), the scope and control monitors must stay silent; below N the run must end in stack_overflow with an uncorrupted output prefix, from N on it must reproduce the reference history, and different garbage must not change it. As built also: a seed-independent bad-length matrix (512 programs: element type x word size x 16 negative/minimal/maximal/wrapping lengths x local/callee, each at 14 stack sizes, must end in stack_overflow with silent monitors) and programs computing with uninitialised int/byte/bool elements judged by the monitors under 8 (stack, poison) pairs.',
  'M-mem is sound-by-weakening (unknown provenance falls back to weaker rules); reads of garbage are caught only when they change behaviour across poisons or vs the reference.',
  'deterministic simulation with enumerated resource-exhaustion fault (stack size axis) and poisoned-memory fault; per-access invariant monitor plus differential oracle'),
 'C05': ('fault_enumeration', '3 C05',
  'The fault axis is enumerated: every fault kind x operator/element type/storage class x boundary index/divisor/length with its nearest harmless neighbours (936 matrix programs whose expected flag is derived independently of the reference model and cross-checked with it), plus the same faults planted at seeded positions inside loops, callees and try bodies of generated programs; exact flag sequence, intact prefix and nothing-after are checked on the committed timeline. As built the length part runs every length (incl. values whose byte size wraps to a small number) at every word size {2,3,4,8}; the matrix has 1241 programs.',
  'Flag for bad lengths is stack_overflow as the implementation/upstream tests define; bool lengths within 7 of the largest signed value are probed with a stack large enough to hold them (F19).',
  'deterministic simulation with enumerated program-level fault injection; differential oracle vs reference model'),
 'C08': ('exploration', '3 C08',
  'Seeded programs with arrays at every nesting level of blocks, loops, calls and tries, left by every exit route chosen periodically by (i + sel) % M; M-scope samples (fp, ap) at every loop-head arrival within an activation, at call returns and at stop-handler entry, M-mem tracks array extents (release into a live array, access through a released origin); end-to-end: the measured minimal stack for k = M and k = 3M iterations must be equal and the long run at that stack must reproduce the reference history.',
  'Footprint equality relies on the generated programs being periodic in their control flow by construction.',
  'deterministic simulation: history of scope exits driven by input, state invariants sampled by the simulator, resource-exhaustion measurement'),
 'C09': ('exploration', '3 C09',
  'Boundary grid x every operator and cast x four lowering positions (value, branch, !truth_is_defeat under try/undo and under try/stop) x word sizes {2,3,4}, operands passed through argv so nothing folds, plus seeded operand rows; the emitted code runs on the simulated machine (the defeat positions need its Turing-jump oracle) and every printed result is compared with the reference interpreter.',
  'Weak fit for the technique (the quantifier is a value grid); the simulator is needed because the result exists only as behaviour of emitted code. SVM/reference assumptions as for C01; floor div/mod assumed.',
  'deterministic simulation of emitted code over an enumerated value grid plus seeded sampling; differential oracle'),
 'C10': ('fault_enumeration', '3 C10',
  'Text half: seeded fuzzing (random text/bytes, token soups, mutated/truncated/ill-typed variants of generated programs, nesting <= 40) x option vectors through the API (only CompilerError may escape, diagnostics render, spans inside the source) - this half is input fuzzing run through the same harness. I/O half: hidc.__main__.main() in-process on a fake file system; for every invocation the recorded file-system calls are enumerated as fault positions x {EIO, ENOSPC, EACCES, EMFILE} plus missing input, directory as input/output and undecodable bytes; exit status, stderr, traceback absence and output-file presence/content are checked; a sample is cross-checked against a real python -m hidc subprocess. As built also: a seed-independent single-damage matrix (2547 programs: each alien expression / bad statement alone in each small host position) and long-token / wide inputs (literals of up to 9000 digits, -m14400, -m80000); standard-output faults; legal slow-device behaviour (1- and 3-byte reads, 7-byte writes, EINTR) and simulated non-UTF-8 locale encodings, both of which must change nothing.',
  'Fake raw streams wrapped in the real io classes; the fake open() decodes with the simulated locale encoding when no encoding is named; successful output must be accepted by the strict SVM assembler (stub of the Sphinx assembler).',
  'deterministic simulation of the CLI on a fake file system with enumerated I/O fault injection; seeded input fuzzing for the totality half'),
 'C13': ('exploration', '3 C13',
  'Every byte value singly / as character immediate / at first-middle-last position, special-byte pairs (all 65536 pairs in thorough), constant arrays of all lengths 0..40 in four storage classes, seeded random strings and literal spellings; the strict SVM assembler must accept the output and the running program must print, index and measure exactly the denoted bytes. As built every source is also sent through the command-line tool reading it from a (fake) file and must give assembly byte-identical to the API result; literals are also spelled with raw control characters; sources with non-ASCII text are read under the simulated locale encodings utf-8, ascii, latin-1 and cp1252 (process-environment fault) and must build identically.',
  'Weak fit (value space); the SVM assembler\'s strictness stands in for the real Sphinx assembler.',
  'deterministic simulation of emitted code over an enumerated constant space plus seeded sampling; strict assembler as oracle for well-formedness'),
 'C14': ('exploration', '3 C14',
  'Seeded constant expressions (depth <= 5, boundary literals, const locals/globals, optional run-time leaves) compiled as written and as a run-time twin with every constant lifted into a variable; both must commit the reference history at word sizes {2,3,4}; compile-time rejections are accepted only when the twin faults at run time. One genuine defect (unbounded folding, F4) is a recorded known finding, recognised by an exact model of it. As built also partial-constant twins (a constant next to an operand with an effect) and control-flow twins (a constant as the whole condition of if/while/for).',
  'Weak fit (value/program space). Known finding F4 is matched only when the observed output equals the unbounded-folding model exactly.',
  'deterministic simulation of program pairs (constant form / run-time twin) on the simulated machine; differential oracle vs reference model'),
 'C15': ('exploration', '3 C15',
  'Checked and --unchecked builds of the same seeded program (all generators, incl. time travel and harmless twins of planted faults) are stepped on the simulated machine with identical word size, stack, argv and poison; whenever the checked run raises no error flag the unchecked run must commit the identical history. The number of guard instructions executed by the checked run is measured, so "the checks ran and were pure observers" is evidence, not assumption. As built the first 144 cases are a seed-independent preempt matrix (placement x tail x handler kind x follow-up).',
  'Cases whose checked run ends in an error flag are counted, not judged (unchecked behaviour undefined there).',
  'deterministic simulation: paired executions under a build-option seam; history equality'),
 'C18': ('exploration', '3 C18',
  'Hash-seed / fresh-process seam: batches of seeded programs compiled in 4 fresh interpreters under seeded PYTHONHASHSEED values and twice in-process must give byte-identical assembly; stack seam: histories at N, N+1, N+2, N+9, 4000 and 100000 words identical; word-size seam: runs at {2,3,4,8} bytes agree whenever the reference histories agree (program constants fit 16 bits); --lint either rejects or leaves the bytes unchanged; process-environment seam: one program per batch with non-ASCII text goes through the command-line tool under simulated locale encodings (fake file system) and, every fourth case, through the real tool in fresh interpreters under LC_ALL=C.utf8 and LC_ALL=C without coercion/UTF-8 mode, another hash seed and another working directory - all builds byte-identical to the API build.',
  'Assumes PYTHONHASHSEED and the locale encoding are the per-process inputs reachable from hidc (no clocks, ids or paths in the output).',
  'deterministic simulation with controlled interpreter hash seed / process seam and configuration sweeps on the simulated machine'),
 'C16': ('exploration', '3 C16',
  'Seeded function bodies composed of the shapes the exit analysis reasons about (constant-true loops with/without break, if/else exits, try/undo/stop with exits in body and handler, preempt with the only return, statements after exits, terminal calls), including shapes that must be rejected; when hidc accepts, the program runs for every selector value with the program-counter monitor (no sequential arrival at a function entry, pc never leaves the code), the history must equal the reference interpreter (which executes every source statement) and the reference must never fall off a value-returning function.',
  'Rejections are never judged (conservatism allowed). Function entries are recognised from the call pattern, pc 0 and code addresses stored as data.',
  'deterministic simulation: program-counter invariant monitor on the simulated machine plus differential oracle vs a reference model that ignores reachability analysis'),
 'C17': ('exploration', '3 C17',
  'All 65536 16-bit integers, all 256 bytes, both bools, byte arrays/strings of every length 0..64 in eight storage classes, seeded boundary/random integers at 24/32/64 bits; guard variables and a neighbouring array checked by the program itself, M-mem on every library store, selected jobs re-run at the measured minimal stack with poisoned free memory.',
  'Exhaustive only for the 16-bit sweep, bytes, bools and lengths (flagged in coverage.sweep16_complete); SVM assumptions as for C01.',
  'deterministic simulation: exhaustive sweep executed on the simulated machine with memory monitor and stack-exhaustion / poison faults'),
}

def main():
    here = os.path.dirname(os.path.abspath(__file__))
    m = json.load(open(os.path.join(here, 'MANIFEST.json')))
    checks = []
    for pid in sorted(CLAIMS):
        cat, ref, text, note, tech = CLAIMS[pid]
        checks.append({
            'property_id': pid,
            'quick_cmd': f'./check {pid} --tier quick',
            'thorough_cmd': f'./check {pid} --tier thorough',
            'evidence_file': f'/verif/evidence/{pid}.json',
            'replay_cmd_template': f'./check {pid} --replay {{path}}',
            'engine': 'hidsim',
            'level_claimed': {'category': cat, 'text': text, 'design_ref': 'DESIGN.md section ' + ref},
            'level_note': note,
            'technique': tech,
        })
    m['checks'] = checks
    m['engines'] = [{'name': 'hidsim', 'path': '/verif/hidsim', 'serves_properties': sorted(CLAIMS),
                     'kind_free_text': 'pure-Python deterministic simulator: Sphinx VM (assembler, machine, Turing-jump oracle with undo-journal rollback, cycle detection), run-time monitors, source-level reference interpreter, seeded typed program generator, fake-filesystem CLI driver'}]
    claimed = set(CLAIMS)
    m['not_applicable'] = [e for e in m['not_applicable'] if e['property_id'] not in claimed]
    json.dump(m, open(os.path.join(here, 'MANIFEST.json'), 'w'), indent=1)
    print('MANIFEST.json written:', sorted(claimed))

if __name__ == '__main__':
    main()
