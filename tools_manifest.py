#!/usr/bin/env python3
"""Regenerates MANIFEST.json from the property modules (so that the claimed
levels, techniques and commands stay in one place)."""
import json, os, sys
sys.path.insert(0, os.path.dirname(os.path.abspath(__file__)))

CLAIMS = {
 'C01': ('exploration', '3 C01',
  'Seeded search over generated well-typed sequential programs x argv x word size x stack (generous and measured minimum) x poisoned free stack; every output byte and flag of the real compiler\'s code, executed on the simulated Sphinx machine, is compared with an independent source-level reference interpreter; all monitors run.',
  'SVM is a home-made stub of the Sphinx emulator calibrated on upstream tests/test_codegen.py (52/52) and the README examples; reference model is my reading of the README; sampling, not proof.',
  'deterministic simulation: seeded program/input/config generation, emitted code stepped on a simulated machine with rollback oracle, differential oracle vs reference model'),
}

def main():
    here = os.path.dirname(os.path.abspath(__file__))
    m = json.load(open(os.path.join(here, 'MANIFEST.json')))
    checks = []
    for pid in sorted(CLAIMS):
        cat, ref, text, note, tech = CLAIMS[pid]
        checks.append({
            'property_id': pid,
            'quick_cmd': f'./check {pid} --tier quick',
            'thorough_cmd': f'./check {pid} --tier thorough',
            'evidence_file': f'/verif/evidence/{pid}.json',
            'replay_cmd_template': f'./check {pid} --replay {{path}}',
            'engine': 'hidsim',
            'level_claimed': {'category': cat, 'text': text, 'design_ref': 'DESIGN.md section ' + ref},
            'level_note': note,
            'technique': tech,
        })
    m['checks'] = checks
    m['engines'] = [{'name': 'hidsim', 'path': '/verif/hidsim', 'serves_properties': sorted(CLAIMS),
                     'kind_free_text': 'pure-Python deterministic simulator: Sphinx VM (assembler, machine, Turing-jump oracle with undo-journal rollback, cycle detection), run-time monitors, source-level reference interpreter, seeded typed program generator, fake-filesystem CLI driver'}]
    claimed = set(CLAIMS)
    m['not_applicable'] = [e for e in m['not_applicable'] if e['property_id'] not in claimed]
    json.dump(m, open(os.path.join(here, 'MANIFEST.json'), 'w'), indent=1)
    print('MANIFEST.json written:', sorted(claimed))

if __name__ == '__main__':
    main()
