"""SVM: the simulated Sphinx machine (DESIGN 2.1, Appendix A).

Machine(prog).run() executes an assembled Program.  The Turing jump is decided
by speculation: `j X` continues with the fall-through and records a choice
point; reaching a halt rolls memory, the event log and all monitor state back
to the youngest open choice point and takes the jump.  A halt with no open
choice point is a committed halt (defeat).  A repeated (pc, state) on the
current path proves the path never halts, which commits it.

An optional monitor object (hidsim.monitors.Monitor) observes every access.
"""
import hashlib
from .asm import (IMM, STATE, CONST, HALT, HEQ, HNE, HLT, HGT, HLE, HGE, HLTU,
                  HGTU, HLEU, HGEU, J, MOV, ADD, SUB, MUL, DIV, MOD, AND, OR,
                  XOR, ASL, ASR, LWS, LWC, LBS, LBC, LWSO, LWCO, LBSO, LBCO,
                  SWS, SBS, SWSO, SBSO, YIELD, SLEEP, FLAG, FAULT, OPNAME)

WIN, ERROR, DIVERGE, DEFEAT, BUDGET, MACHINE_FAULT = (
    'WIN', 'ERROR', 'DIVERGE', 'DEFEAT', 'BUDGET', 'MACHINE_FAULT')


class Result:
    __slots__ = ('outcome', 'error_kind', 'events', 'history', 'steps',
                 'committed_steps', 'choices', 'rollbacks', 'peephole_averted',
                 'max_depth', 'trace_hash', 'fault', 'halt_sites', 'verdicts',
                 'probes', 'sleep_ms', 'final_state', 'last_pcs', 'cycles_checked',
                 'max_ap', 'min_frame')

    def output(self):
        return bytes(e[1] for e in self.history if e[0] == 'o')

    def flags(self):
        return [e[1] for e in self.history if e[0] == 'f']

    def summary(self):
        return {'outcome': self.outcome, 'error_kind': self.error_kind,
                'output': self.output().decode('latin-1'), 'flags': self.flags(),
                'steps': self.steps}


class MachineFault(Exception):
    pass


def history_of(events):
    """Cut the committed event log after the first terminal flag."""
    for i, e in enumerate(events):
        if e[0] == 'f' and e[1] in ('win', 'error'):
            return events[:i + 1]
    return list(events)


def classify(history):
    if history and history[-1] == ('f', 'win'):
        return WIN, None
    if history and history[-1] == ('f', 'error'):
        kind = None
        if len(history) >= 2 and history[-2][0] == 'f':
            kind = history[-2][1]
        return ERROR, kind
    return DIVERGE, None


class Machine:
    def __init__(self, prog, monitor=None, max_steps=2_000_000, poison=None,
                 keep_last=0):
        self.prog = prog
        self.mon = monitor
        self.max_steps = max_steps
        self.mem = bytearray(prog.state)
        self.keep_last = keep_last
        if poison is not None:
            self._poison(poison)

    def _poison(self, rnd):
        """Fill the unwritten stack and the scratch registers with garbage.
        Only bytes that the assembler initialised with .zero inside the stack
        object and r0-r2 are touched."""
        p = self.prog
        L = p.labels
        W = p.W
        for r in ('r0', 'r1', 'r2'):
            if r in L:
                self.mem[L[r]:L[r] + W] = rnd.randbytes(W)
        if 'stack_start' in L:
            for sec, s, e in p.zero_regions:
                if sec == 'state' and s == L['stack_start']:
                    self.mem[s:e] = rnd.randbytes(e - s)

    def run(self):
        prog = self.prog
        code = prog.code
        ncode = len(code)
        mem = self.mem
        nmem = len(mem)
        const = bytes(prog.const)
        nconst = len(const)
        W = prog.W
        bits = 8 * W
        mask = (1 << bits) - 1
        sign = 1 << (bits - 1)
        full = 1 << bits
        mon = self.mon
        from_bytes = int.from_bytes
        max_steps = self.max_steps

        journal = []       # (addr, old bytes) [+ shadow via monitor]
        events = []
        trace = []
        choices = []       # (target, journal len, events len, seen len, trace len, monitor mark, pc_of_j)
        seen = set()
        seen_list = []
        steps = 0
        rollbacks = 0
        peep = 0
        nchoices = 0
        max_depth = 0
        halt_sites = set()
        last = [] if self.keep_last else None
        keep_last = self.keep_last
        pc = 0   # execution starts at the first instruction of the code section
        res = Result()
        res.fault = None
        res.verdicts = []
        cycles_checked = 0
        entry_pred = ()
        if mon is not None:
            mon.start(self, prog, mem)
            entry_pred = getattr(self, 'entry_pred', ())

        try:
            while True:
                if pc >= ncode:
                    raise MachineFault(f'pc {pc} left the code')
                steps += 1
                if steps > max_steps:
                    res.outcome = BUDGET
                    break
                ins = code[pc]
                op = ins[0]
                if last is not None:
                    last.append(pc)
                    if len(last) > 4 * keep_last:
                        del last[:-keep_last]

                halted = False
                if op <= HGEU:
                    # ---- halts
                    if op == HALT:
                        halted = True
                    else:
                        k = ins[1]
                        a = ins[2] if k == 0 else (
                            from_bytes(mem[ins[2]:ins[2] + W], 'little') if k == 1
                            else from_bytes(const[ins[2]:ins[2] + W], 'little'))
                        k = ins[3]
                        b = ins[4] if k == 0 else (
                            from_bytes(mem[ins[4]:ins[4] + W], 'little') if k == 1
                            else from_bytes(const[ins[4]:ins[4] + W], 'little'))
                        if op == HEQ:
                            halted = a == b
                        elif op == HNE:
                            halted = a != b
                        elif op >= HLTU:
                            if op == HLTU:
                                halted = a < b
                            elif op == HGTU:
                                halted = a > b
                            elif op == HLEU:
                                halted = a <= b
                            else:
                                halted = a >= b
                        else:
                            if a & sign:
                                a -= full
                            if b & sign:
                                b -= full
                            if op == HLT:
                                halted = a < b
                            elif op == HGT:
                                halted = a > b
                            elif op == HLE:
                                halted = a <= b
                            else:
                                halted = a >= b
                    if not halted:
                        if entry_pred and pc in entry_pred:
                            mon.fallthrough(pc)
                        pc += 1
                        continue
                    # a halt was reached
                    halt_sites.add(pc)
                    if not choices:
                        res.outcome = DEFEAT
                        res.fault = f'committed halt at pc {pc}: {prog.code_lines[pc]}'
                        break
                    target, jl, el, sl, tl, mm, jpc = choices.pop()
                    rollbacks += 1
                    while len(journal) > jl:
                        ent = journal.pop()
                        mem[ent[0]:ent[0] + len(ent[1])] = ent[1]
                    del events[el:]
                    while len(seen_list) > sl:
                        seen.discard(seen_list.pop())
                    del trace[tl:]
                    trace.append((jpc << 1) | 1)
                    if mon is not None:
                        mon.restore(mm)
                    if target >= ncode:
                        raise MachineFault(f'jump to {target} outside the code')
                    if target <= jpc:
                        cycles_checked += 1
                        key = hashlib.blake2b(bytes(mem), digest_size=16,
                                              salt=target.to_bytes(8, 'little')).digest()
                        if key in seen:
                            res.outcome = 'CYCLE'
                            break
                        seen.add(key)
                        seen_list.append(key)
                    if mon is not None:
                        mon.jump(jpc, target, True)
                    pc = target
                    continue

                if op == J:
                    k = ins[1]
                    target = ins[2] if k == 0 else (
                        from_bytes(mem[ins[2]:ins[2] + W], 'little') if k == 1
                        else from_bytes(const[ins[2]:ins[2] + W], 'little'))
                    # peephole: what does the fall-through do at once?
                    nxt = code[pc + 1] if pc + 1 < ncode else None
                    fires = False
                    skip = 1
                    if nxt is not None and nxt[0] <= HGEU:
                        fires = self._fires(nxt, mem, const, W, sign, full)
                        skip = 2
                        steps += 1
                    if fires:
                        peep += 1
                        halt_sites.add(pc + 1)
                        taken = True
                    else:
                        taken = False
                        # is the alternative dead (its first instruction halts
                        # in the current state)?  then no choice is needed
                        dead = False
                        if target < ncode:
                            tin = code[target]
                            if tin[0] <= HGEU and self._fires(tin, mem, const, W, sign, full):
                                dead = True
                        if not dead:
                            nchoices += 1
                            choices.append((target, len(journal), len(events),
                                            len(seen_list), len(trace),
                                            mon.mark() if mon is not None else None, pc))
                            if len(choices) > max_depth:
                                max_depth = len(choices)
                    trace.append((pc << 1) | (1 if taken else 0))
                    if taken:
                        if target >= ncode:
                            raise MachineFault(f'jump to {target} outside the code')
                        if target <= pc:
                            cycles_checked += 1
                            key = hashlib.blake2b(bytes(mem), digest_size=16,
                                                  salt=target.to_bytes(8, 'little')).digest()
                            if key in seen:
                                res.outcome = 'CYCLE'
                                break
                            seen.add(key)
                            seen_list.append(key)
                        if mon is not None:
                            mon.jump(pc, target, True)
                        pc = target
                    else:
                        if entry_pred and (pc + skip - 1) in entry_pred:
                            mon.fallthrough(pc + skip - 1)
                        pc += skip
                    continue

                # ---- everything else has operand 1 as a destination or value
                if op <= ASR:
                    # MOV / arithmetic: dest is a direct state address
                    d = ins[2]
                    k = ins[3]
                    a = ins[4] if k == 0 else (
                        from_bytes(mem[ins[4]:ins[4] + W], 'little') if k == 1
                        else from_bytes(const[ins[4]:ins[4] + W], 'little'))
                    if op == MOV:
                        r = a
                    else:
                        k = ins[5]
                        b = ins[6] if k == 0 else (
                            from_bytes(mem[ins[6]:ins[6] + W], 'little') if k == 1
                            else from_bytes(const[ins[6]:ins[6] + W], 'little'))
                        if op == ADD:
                            r = (a + b) & mask
                        elif op == SUB:
                            r = (a - b) & mask
                        elif op == MUL:
                            r = (a * b) & mask
                        elif op == AND:
                            r = a & b
                        elif op == OR:
                            r = a | b
                        elif op == XOR:
                            r = a ^ b
                        elif op == ASL:
                            r = (a << b) & mask if b < bits else 0
                        elif op == ASR:
                            if a & sign:
                                a -= full
                            r = (a >> (b if b < bits else bits)) & mask
                        else:
                            if a & sign:
                                a -= full
                            if b & sign:
                                b -= full
                            if b == 0:
                                raise MachineFault(f'division by zero at pc {pc}: {prog.code_lines[pc]}')
                            r = ((a // b) if op == DIV else (a % b)) & mask
                    if choices:
                        journal.append((d, bytes(mem[d:d + W])))
                    if mon is not None:
                        mon.write_direct(pc, ins, d, r, mem, bool(choices))
                    mem[d:d + W] = r.to_bytes(W, 'little')
                    pc += 1
                    continue

                if op <= LBCO:
                    # loads
                    d = ins[2]
                    k = ins[3]
                    a = ins[4] if k == 0 else (
                        from_bytes(mem[ins[4]:ins[4] + W], 'little') if k == 1
                        else from_bytes(const[ins[4]:ins[4] + W], 'little'))
                    base = a
                    off = 0
                    if op >= LWSO:
                        k = ins[5]
                        off = ins[6] if k == 0 else (
                            from_bytes(mem[ins[6]:ins[6] + W], 'little') if k == 1
                            else from_bytes(const[ins[6]:ins[6] + W], 'little'))
                        a = (a + off) & mask
                    if op == LWS or op == LWSO:
                        if a + W > nmem:
                            raise MachineFault(f'state word load at {a} out of range, pc {pc}: {prog.code_lines[pc]}')
                        r = from_bytes(mem[a:a + W], 'little')
                        sec, size = 1, W
                    elif op == LBS or op == LBSO:
                        if a >= nmem:
                            raise MachineFault(f'state byte load at {a} out of range, pc {pc}: {prog.code_lines[pc]}')
                        r = mem[a]
                        sec, size = 1, 1
                    elif op == LWC or op == LWCO:
                        if a + W > nconst:
                            raise MachineFault(f'const word load at {a} out of range, pc {pc}: {prog.code_lines[pc]}')
                        r = from_bytes(const[a:a + W], 'little')
                        sec, size = 2, W
                    else:
                        if a >= nconst:
                            raise MachineFault(f'const byte load at {a} out of range, pc {pc}: {prog.code_lines[pc]}')
                        r = const[a]
                        sec, size = 2, 1
                    if choices:
                        journal.append((d, bytes(mem[d:d + W])))
                    if mon is not None:
                        mon.load(pc, ins, sec, base, off, a, size, d, mem, bool(choices))
                    mem[d:d + W] = r.to_bytes(W, 'little')
                    pc += 1
                    continue

                if op <= SBSO:
                    # stores
                    k = ins[1]
                    a = ins[2] if k == 0 else (
                        from_bytes(mem[ins[2]:ins[2] + W], 'little') if k == 1
                        else from_bytes(const[ins[2]:ins[2] + W], 'little'))
                    base = a
                    off = 0
                    if op >= SWSO:
                        k = ins[3]
                        off = ins[4] if k == 0 else (
                            from_bytes(mem[ins[4]:ins[4] + W], 'little') if k == 1
                            else from_bytes(const[ins[4]:ins[4] + W], 'little'))
                        a = (a + off) & mask
                        k = ins[5]
                        v = ins[6] if k == 0 else (
                            from_bytes(mem[ins[6]:ins[6] + W], 'little') if k == 1
                            else from_bytes(const[ins[6]:ins[6] + W], 'little'))
                    else:
                        k = ins[3]
                        v = ins[4] if k == 0 else (
                            from_bytes(mem[ins[4]:ins[4] + W], 'little') if k == 1
                            else from_bytes(const[ins[4]:ins[4] + W], 'little'))
                    if op == SWS or op == SWSO:
                        size = W
                        if a + W > nmem:
                            raise MachineFault(f'state word store at {a} out of range, pc {pc}: {prog.code_lines[pc]}')
                    else:
                        size = 1
                        if a >= nmem:
                            raise MachineFault(f'state byte store at {a} out of range, pc {pc}: {prog.code_lines[pc]}')
                    if choices:
                        journal.append((a, bytes(mem[a:a + size])))
                    if mon is not None:
                        mon.store(pc, ins, base, off, a, size, v, mem, bool(choices))
                    if size == 1:
                        mem[a] = v & 0xFF
                    else:
                        mem[a:a + W] = v.to_bytes(W, 'little')
                    pc += 1
                    continue

                if entry_pred and pc in entry_pred:
                    mon.fallthrough(pc)
                if op == FLAG:
                    events.append(('f', ins[2]))
                    pc += 1
                    continue
                if op == FAULT:
                    raise MachineFault(f'{ins[2]} at pc {pc}: {prog.code_lines[pc]}')
                k = ins[1]
                a = ins[2] if k == 0 else (
                    from_bytes(mem[ins[2]:ins[2] + W], 'little') if k == 1
                    else from_bytes(const[ins[2]:ins[2] + W], 'little'))
                if op == YIELD:
                    events.append(('o', a & 0xFF))
                else:
                    events.append(('s', a))
                pc += 1
        except MachineFault as e:
            res.outcome = MACHINE_FAULT
            res.fault = str(e)

        res.events = events
        res.history = history_of(events)
        res.error_kind = None
        if res.outcome == 'CYCLE':
            res.outcome, res.error_kind = classify(res.history)
        res.steps = steps
        res.choices = nchoices
        res.rollbacks = rollbacks
        res.peephole_averted = peep
        res.max_depth = max_depth
        res.halt_sites = halt_sites
        res.trace_hash = hashlib.blake2b(
            b''.join(t.to_bytes(4, 'little') for t in trace), digest_size=8).hexdigest()
        res.sleep_ms = sum(e[1] for e in res.history if e[0] == 's')
        res.cycles_checked = cycles_checked
        res.last_pcs = last[-keep_last:] if last else []
        res.final_state = mem
        if mon is not None:
            mon.finish(res)
        return res

    @staticmethod
    def _fires(ins, mem, const, W, sign, full):
        op = ins[0]
        if op == HALT:
            return True
        from_bytes = int.from_bytes
        k = ins[1]
        a = ins[2] if k == 0 else (
            from_bytes(mem[ins[2]:ins[2] + W], 'little') if k == 1
            else from_bytes(const[ins[2]:ins[2] + W], 'little'))
        k = ins[3]
        b = ins[4] if k == 0 else (
            from_bytes(mem[ins[4]:ins[4] + W], 'little') if k == 1
            else from_bytes(const[ins[4]:ins[4] + W], 'little'))
        if op == HEQ:
            return a == b
        if op == HNE:
            return a != b
        if op == HLTU:
            return a < b
        if op == HGTU:
            return a > b
        if op == HLEU:
            return a <= b
        if op == HGEU:
            return a >= b
        if a & sign:
            a -= full
        if b & sign:
            b -= full
        if op == HLT:
            return a < b
        if op == HGT:
            return a > b
        if op == HLE:
            return a <= b
        return a >= b


def run_lines(lines, argv=(), **kw):
    from .asm import assemble
    return Machine(assemble(lines, argv), **kw).run()
