"""Fresh-interpreter compile worker for the hash-seed seam (C18).
stdin: JSON list of {src, W, stack, unchecked, lint}; stdout: JSON list of
sha256 hex digests of the emitted assembly (or 'ERR:<type>')."""
import hashlib
import json
import sys


def main():
    here = sys.argv[1]
    sys.path.insert(0, here)
    from hidsim import hidc_api
    jobs = json.load(sys.stdin)
    out = []
    for j in jobs:
        try:
            lines = hidc_api.compile_source(j['src'], word_size=j['W'], stack_size=j['stack'],
                                            unchecked=j['unchecked'], lint=j['lint'])
            out.append(hashlib.sha256(b'\n'.join(lines)).hexdigest())
        except hidc_api.CompilerError as e:
            out.append('ERR:' + type(e).__name__ + ':' + str(e))
        except Exception as e:   # noqa: BLE001
            out.append('ICE:' + type(e).__name__)
    json.dump(out, sys.stdout)


if __name__ == '__main__':
    main()
