"""Strict assembler for the Sphinx dialect that hidc emits (DESIGN 2.1).

assemble(lines, argv) -> Program.  Anything the dialect does not define is an
AsmError: the strictness is part of the oracle for C10/C13 ("the emitted
assembly is always well-formed").
"""
import bisect

IMM, STATE, CONST = 0, 1, 2


class AsmError(Exception):
    pass


class ArgError(AsmError):
    """argv does not fit the %argv specification (a usage error, not a
    malformed assembly file)."""


# opcode numbers -------------------------------------------------------------
(HALT, HEQ, HNE, HLT, HGT, HLE, HGE, HLTU, HGTU, HLEU, HGEU, J, MOV, ADD, SUB,
 MUL, DIV, MOD, AND, OR, XOR, ASL, ASR, LWS, LWC, LBS, LBC, LWSO, LWCO, LBSO,
 LBCO, SWS, SBS, SWSO, SBSO, YIELD, SLEEP, FLAG, FAULT) = range(39)

MNEMONICS = {
    'halt': (HALT, ''), 'heq': (HEQ, 'vv'), 'hne': (HNE, 'vv'),
    'hlt': (HLT, 'vv'), 'hgt': (HGT, 'vv'), 'hle': (HLE, 'vv'),
    'hge': (HGE, 'vv'), 'hltu': (HLTU, 'vv'), 'hgtu': (HGTU, 'vv'),
    'hleu': (HLEU, 'vv'), 'hgeu': (HGEU, 'vv'), 'j': (J, 'v'),
    'mov': (MOV, 'dv'), 'add': (ADD, 'dvv'), 'sub': (SUB, 'dvv'),
    'mul': (MUL, 'dvv'), 'div': (DIV, 'dvv'), 'mod': (MOD, 'dvv'),
    'and': (AND, 'dvv'), 'or': (OR, 'dvv'), 'xor': (XOR, 'dvv'),
    'asl': (ASL, 'dvv'), 'asr': (ASR, 'dvv'),
    'lws': (LWS, 'dv'), 'lwc': (LWC, 'dv'), 'lbs': (LBS, 'dv'),
    'lbc': (LBC, 'dv'),
    'lwso': (LWSO, 'dvv'), 'lwco': (LWCO, 'dvv'), 'lbso': (LBSO, 'dvv'),
    'lbco': (LBCO, 'dvv'),
    'sws': (SWS, 'vv'), 'sbs': (SBS, 'vv'),
    'swso': (SWSO, 'vvv'), 'sbso': (SBSO, 'vvv'),
    'yield': (YIELD, 'v'), 'sleep': (SLEEP, 'v'), 'flag': (FLAG, 'n'),
}
OPNAME = {v[0]: k for k, v in MNEMONICS.items()}

ESCAPES = {ord('\\'): 0x5c, ord('"'): 0x22, ord("'"): 0x27, ord('n'): 10,
           ord('r'): 13, ord('t'): 9, ord('0'): 0, ord('a'): 7, ord('b'): 8,
           ord('f'): 12}

NAME_START = b'abcdefghijklmnopqrstuvwxyzABCDEFGHIJKLMNOPQRSTUVWXYZ_'
NAME_CHARS = NAME_START + b'0123456789'
HEXD = b'0123456789abcdefABCDEF'


def _read_escape(line, i, what):
    """line[i] is the byte after a backslash; returns (value, next index)."""
    if i >= len(line):
        raise AsmError(f'dangling escape in {what}')
    c = line[i]
    if c == ord('x'):
        h = line[i + 1:i + 3]
        if len(h) != 2 or any(d not in HEXD for d in h):
            raise AsmError(f'malformed \\x escape in {what}')
        return int(h, 16), i + 3
    if c in ESCAPES:
        return ESCAPES[c], i + 1
    raise AsmError(f'unknown escape \\{chr(c)} in {what}')


def tokenize(line):
    """bytes -> list of (kind, value) tokens; strips ; comments."""
    toks = []
    i, n = 0, len(line)
    while i < n:
        c = line[i]
        if c in b' \t\r':
            i += 1
        elif c == ord(';'):
            break
        elif c == ord('"'):
            out = bytearray()
            i += 1
            while True:
                if i >= n:
                    raise AsmError('unterminated string')
                c = line[i]
                if c == ord('"'):
                    i += 1
                    break
                if c == ord('\\'):
                    v, i = _read_escape(line, i + 1, 'string')
                    out.append(v)
                else:
                    out.append(c)
                    i += 1
            toks.append(('str', bytes(out)))
        elif c == ord("'"):
            i += 1
            if i >= n:
                raise AsmError('unterminated character literal')
            if line[i] == ord('\\'):
                v, i = _read_escape(line, i + 1, 'character literal')
            elif line[i] == ord("'"):
                raise AsmError('empty character literal')
            else:
                v = line[i]
                i += 1
            if i >= n or line[i] != ord("'"):
                raise AsmError('character literal is not a single byte')
            i += 1
            toks.append(('int', v))
        elif c in b'0123456789':
            j = i
            if line[i:i + 2] in (b'0x', b'0X'):
                j = i + 2
                while j < n and line[j] in HEXD:
                    j += 1
                if j == i + 2:
                    raise AsmError('malformed hex literal')
                v = int(line[i + 2:j], 16)
            elif line[i:i + 2] in (b'0b', b'0B'):
                j = i + 2
                while j < n and line[j] in b'01':
                    j += 1
                if j == i + 2:
                    raise AsmError('malformed binary literal')
                v = int(line[i + 2:j], 2)
            else:
                while j < n and line[j] in b'0123456789':
                    j += 1
                v = dec_int(line[i:j])
            if j < n and line[j] == ord('w') and (
                    j + 1 >= n or line[j + 1] not in NAME_CHARS):
                toks.append(('wint', v))
                j += 1
            else:
                if j < n and line[j] in NAME_CHARS:
                    raise AsmError('malformed number')
                toks.append(('int', v))
            i = j
        elif line[i:i + 3] == b'...':
            toks.append(('p', '...'))
            i += 3
        elif c in NAME_START or c in b'.%$':
            j = i + 1
            while j < n and line[j] in NAME_CHARS:
                j += 1
            toks.append(('name', line[i:j].decode('ascii')))
            i = j
        elif c in b',[]{}()+-*&:<>':
            if line[i:i + 3] == b'...':
                toks.append(('p', '...'))
                i += 3
            else:
                toks.append(('p', chr(c)))
                i += 1
        elif line[i:i + 3] == b'...':
            toks.append(('p', '...'))
            i += 3
        else:
            raise AsmError(f'unexpected character {chr(c)!r}')
    return toks


class _Expr:
    """Recursive-descent parser producing a small tree evaluated later."""

    def __init__(self, toks, pos):
        self.t = toks
        self.i = pos

    def peek(self):
        return self.t[self.i] if self.i < len(self.t) else (None, None)

    def take(self):
        tok = self.peek()
        self.i += 1
        return tok

    def expr(self):
        left = self.add()
        while self.peek() == ('p', '&'):
            self.take()
            left = ('&', left, self.add())
        return left

    def add(self):
        left = self.mul()
        while self.peek() in (('p', '+'), ('p', '-')):
            op = self.take()[1]
            left = (op, left, self.mul())
        return left

    def mul(self):
        left = self.unary()
        while self.peek() == ('p', '*'):
            self.take()
            left = ('*', left, self.unary())
        return left

    def unary(self):
        if self.peek() == ('p', '-'):
            self.take()
            return ('neg', self.unary())
        if self.peek() == ('p', '+'):
            self.take()
            return self.unary()
        return self.atom()

    def atom(self):
        kind, val = self.take()
        if kind == 'int':
            return ('int', val)
        if kind == 'wint':
            return ('wint', val)
        if kind == 'name':
            if val.startswith('.') or val.startswith('%'):
                raise AsmError(f'unexpected {val} in expression')
            return ('name', val)
        if (kind, val) == ('p', '('):
            e = self.expr()
            if self.take() != ('p', ')'):
                raise AsmError('missing )')
            return e
        raise AsmError(f'unexpected token {val!r} in expression')


def _eval(tree, env, W):
    k = tree[0]
    if k == 'int':
        return tree[1]
    if k == 'wint':
        return tree[1] * W
    if k == 'name':
        try:
            return env[tree[1]]
        except KeyError:
            raise AsmError(f'undefined label {tree[1]}') from None
    if k == 'neg':
        return -_eval(tree[1], env, W)
    a = _eval(tree[1], env, W)
    b = _eval(tree[2], env, W)
    if k == '+':
        return a + b
    if k == '-':
        return a - b
    if k == '*':
        return a * b
    if k == '&':
        return a & b
    raise AsmError('bad expression')


def _parse_operand(toks, pos):
    """-> (kind, tree, next pos)"""
    if pos >= len(toks):
        raise AsmError('missing operand')
    if toks[pos] == ('p', '['):
        p = _Expr(toks, pos + 1)
        tree = p.expr()
        if p.take() != ('p', ']'):
            raise AsmError('missing ]')
        return STATE, tree, p.i
    if toks[pos] == ('p', '{'):
        p = _Expr(toks, pos + 1)
        tree = p.expr()
        if p.take() != ('p', '}'):
            raise AsmError('missing }')
        return CONST, tree, p.i
    p = _Expr(toks, pos)
    tree = p.expr()
    return IMM, tree, p.i


def _operand_list(toks, pos):
    ops = []
    if pos >= len(toks):
        return ops
    while True:
        k, tree, pos = _parse_operand(toks, pos)
        ops.append((k, tree))
        if pos >= len(toks):
            return ops
        if toks[pos] != ('p', ','):
            raise AsmError(f'unexpected token {toks[pos][1]!r} after operand')
        pos += 1


class Program:
    """Assembled program + memory map."""

    def __init__(self):
        self.W = None
        self.state = bytearray()
        self.const = bytearray()
        self.code = []          # decoded instruction tuples
        self.code_lines = []    # source text per instruction
        self.labels = {}        # name -> value
        self.label_section = {}  # name -> 'state'|'const'|'code'
        self.state_objects = []  # (start, end, name) sorted, non-overlapping
        self.const_objects = []
        self.arg_blobs = {}     # label -> {'table': (s, e), 'strings': [(s, e)]}
        self.code_labels = {}   # index -> [names]
        self.data_code_refs = set()  # code addresses stored as data (.word f)
        self.argc = 0
        self.zero_regions = []  # (section, start, end) laid down by .zero

    # lookup helpers used by the monitors
    def find_object(self, section, addr):
        objs = self.state_objects if section == 'state' else self.const_objects
        i = bisect.bisect_right(self._starts[section], addr) - 1
        if i >= 0:
            s, e, name = objs[i]
            if s <= addr < e:
                return objs[i]
        return None

    def finish_maps(self):
        self._starts = {
            'state': [o[0] for o in self.state_objects],
            'const': [o[0] for o in self.const_objects],
        }


def _bind_argv(spec_toks, argv):
    """%argv <a> [<b>...] <c>  ->  {name: str | list[str]}"""
    names = []
    i = 0
    variadic = None
    while i < len(spec_toks):
        if spec_toks[i] == ('p', '<'):
            if (i + 2 >= len(spec_toks) or spec_toks[i + 1][0] != 'name'
                    or spec_toks[i + 2] != ('p', '>')):
                raise AsmError('malformed %argv')
            names.append((spec_toks[i + 1][1], False))
            i += 3
        elif spec_toks[i] == ('p', '['):
            want = [('p', '<'), None, ('p', '>'), ('p', '...'), ('p', ']')]
            seg = spec_toks[i + 1:i + 6]
            if len(seg) != 5 or seg[1][0] != 'name' or any(
                    w is not None and w != s for w, s in zip(want, seg)):
                raise AsmError('malformed %argv')
            if variadic is not None:
                raise AsmError('two variadic arguments in %argv')
            variadic = seg[1][1]
            names.append((seg[1][1], True))
            i += 6
        else:
            raise AsmError('malformed %argv')
    fixed = sum(1 for _, v in names if not v)
    if variadic is None:
        if len(argv) != fixed:
            raise ArgError(f'expected {fixed} arguments, got {len(argv)}')
    elif len(argv) < fixed:
        raise ArgError(f'expected at least {fixed} arguments, got {len(argv)}')
    bound = {}
    rest = len(argv) - fixed
    k = 0
    for name, var in names:
        if name in bound:
            raise AsmError(f'duplicate argument name {name}')
        if var:
            bound[name] = list(argv[k:k + rest])
            k += rest
        else:
            bound[name] = argv[k]
            k += 1
    return bound


def dec_int(digits):
    """int() of a decimal digit string of any length, without relying on the interpreter-wide
    sys.int_max_str_digits setting (which the compiler under test may or may not have changed)."""
    if len(digits) <= 4000:
        return int(digits)
    v = 0
    for k in range(0, len(digits), 4000):
        chunk = digits[k:k + 4000]
        v = v * 10 ** len(chunk) + int(chunk)
    return v


def _parse_int_arg(s, name):
    try:
        t = s.strip()
        if not t or any(ch not in '+-0123456789' for ch in t):
            raise ValueError
        return int(t, 10)
    except ValueError:
        raise ArgError(f'argument {name}: {s!r} is not a base-10 integer') from None


def assemble(lines, argv=()):
    argv = [a if isinstance(a, str) else a.decode('utf-8') for a in argv]
    prog = Program()
    prog.argc = len(argv)
    W = None
    section = None
    bound = None
    items = {'state': [], 'const': []}   # (offset, kind, payload)
    sizes = {'state': 0, 'const': 0}
    code_items = []                      # (op, operands, text)
    labels = {}
    label_section = {}
    label_order = {'state': [], 'const': []}
    pending_const_ptr = []               # for asciip arrays: fixups are local

    def define(name, sec, value):
        if name in labels:
            raise AsmError(f'duplicate label {name}')
        labels[name] = value
        label_section[name] = sec
        if sec in label_order:
            label_order[sec].append((value, name))
        else:
            prog.code_labels.setdefault(value, []).append(name)

    for lineno, raw in enumerate(lines, 1):
        if isinstance(raw, str):
            raw = raw.encode('utf-8')
        try:
            toks = tokenize(raw)
            pos = 0
            if not toks:
                continue
            if toks[0][0] == 'name' and toks[0][1].startswith('%'):
                d = toks[0][1]
                if d == '%argv':
                    if bound is not None:
                        raise AsmError('duplicate %argv')
                    bound = _bind_argv(toks[1:], argv)
                elif d == '%format':
                    if len(toks) == 3 and toks[1] == ('name', 'word') and toks[2][0] == 'int':
                        if W is not None:
                            raise AsmError('duplicate %format word')
                        W = toks[2][1]
                        if W < 1:
                            raise AsmError('bad word size')
                    elif toks[1:] == [('name', 'output'), ('name', 'byte')]:
                        pass
                    else:
                        raise AsmError('unsupported %format')
                elif d == '%section':
                    if len(toks) != 2 or toks[1][1] not in ('state', 'const', 'code'):
                        raise AsmError('bad %section')
                    section = toks[1][1]
                else:
                    raise AsmError(f'unknown directive {d}')
                continue
            # labels
            while (pos + 1 < len(toks) and toks[pos][0] == 'name'
                   and toks[pos + 1] == ('p', ':')):
                if section is None:
                    raise AsmError('label outside section')
                name = toks[pos][1]
                if name[0] in '.%$':
                    raise AsmError('bad label name')
                if section == 'code':
                    define(name, 'code', len(code_items))
                else:
                    define(name, section, sizes[section])
                pos += 2
            if pos >= len(toks):
                continue
            if toks[pos][0] != 'name':
                raise AsmError(f'unexpected token {toks[pos][1]!r}')
            head = toks[pos][1]
            pos += 1
            if W is None:
                W = 2   # spasm's default word size (used by hand-written programs only)
            if head.startswith('.'):
                if section not in ('state', 'const'):
                    raise AsmError(f'{head} outside a data section')
                off = sizes[section]
                if head in ('.word', '.byte'):
                    ops = _operand_list(toks, pos)
                    if not ops:
                        raise AsmError(f'{head} without values')
                    if any(k != IMM for k, _ in ops):
                        raise AsmError(f'{head} takes immediates')
                    unit = W if head == '.word' else 1
                    items[section].append((off, head, [t for _, t in ops], lineno))
                    sizes[section] += unit * len(ops)
                elif head == '.zero':
                    ops = _operand_list(toks, pos)
                    if len(ops) != 1 or ops[0][0] != IMM:
                        raise AsmError('.zero takes one immediate')
                    nbytes = _eval(ops[0][1], labels, W)
                    if nbytes < 0:
                        raise AsmError('negative .zero size')
                    if nbytes > (1 << 26):
                        raise AsmError('.zero size unreasonably large for the simulator')
                    prog.zero_regions.append((section, sizes[section], sizes[section] + nbytes))
                    sizes[section] += nbytes
                elif head == '.ascii':
                    if pos + 1 != len(toks) or toks[pos][0] != 'str':
                        raise AsmError('.ascii takes one string')
                    items[section].append((off, '.ascii', toks[pos][1], lineno))
                    sizes[section] += len(toks[pos][1])
                elif head == '.arg':
                    rest = toks[pos:]
                    if len(rest) < 2 or any(t[0] != 'name' for t in rest):
                        raise AsmError('malformed .arg')
                    aname, fmt = rest[0][1], rest[1][1]
                    params = [t[1] for t in rest[2:]]
                    if bound is None or aname not in bound:
                        raise AsmError(f'.arg {aname}: no such argument in %argv')
                    val = bound[aname]
                    if fmt in ('word', 'byte'):
                        if params:
                            raise AsmError('malformed .arg')
                        vals = val if isinstance(val, list) else [val]
                        ints = [_parse_int_arg(v, aname) for v in vals]
                        unit = W if fmt == 'word' else 1
                        items[section].append((off, '.raw', b''.join(
                            (v & ((1 << (8 * unit)) - 1)).to_bytes(unit, 'little')
                            for v in ints), lineno))
                        sizes[section] += unit * len(ints)
                    elif fmt == 'asciip':
                        if params == []:
                            if isinstance(val, list):
                                raise AsmError('.arg asciip on a variadic argument needs "array"')
                            data = val.encode('utf-8')
                            blob = (len(data) & ((1 << (8 * W)) - 1)).to_bytes(W, 'little') + data
                            items[section].append((off, '.raw', blob, lineno))
                            sizes[section] += len(blob)
                        elif params == ['array']:
                            vals = val if isinstance(val, list) else [val]
                            datas = [v.encode('utf-8') for v in vals]
                            table_end = off + W * len(datas)
                            ptrs, strs, cur = [], [], table_end
                            body = bytearray()
                            for d in datas:
                                ptrs.append(cur)
                                s = (len(d) & ((1 << (8 * W)) - 1)).to_bytes(W, 'little') + d
                                strs.append((cur, cur + len(s)))
                                body += s
                                cur += len(s)
                            blob = b''.join((p & ((1 << (8 * W)) - 1)).to_bytes(W, 'little')
                                            for p in ptrs) + bytes(body)
                            items[section].append((off, '.raw', blob, lineno))
                            owner = label_order[section][-1][1] if (
                                label_order[section] and label_order[section][-1][0] == off) else None
                            pending_const_ptr.append((section, off, table_end, strs, owner))
                            sizes[section] += len(blob)
                        else:
                            raise AsmError('malformed .arg')
                    else:
                        raise AsmError(f'unknown .arg format {fmt}')
                else:
                    raise AsmError(f'unknown directive {head}')
            else:
                if section != 'code':
                    raise AsmError(f'instruction {head} outside code section')
                if head not in MNEMONICS:
                    raise AsmError(f'unknown mnemonic {head}')
                op, pat = MNEMONICS[head]
                if pat == 'n':
                    if pos + 1 != len(toks) or toks[pos][0] != 'name':
                        raise AsmError('flag takes one bare name')
                    code_items.append((op, toks[pos][1], raw.strip().decode('latin-1'), lineno))
                else:
                    ops = _operand_list(toks, pos)
                    if len(ops) != len(pat):
                        raise AsmError(f'{head} takes {len(pat)} operands, got {len(ops)}')
                    for (k, _), p in zip(ops, pat):
                        if p == 'd' and k != STATE:
                            raise AsmError(f'{head}: destination must be a state operand')
                    code_items.append((op, ops, raw.strip().decode('latin-1'), lineno))
        except AsmError as e:
            raise type(e)(f'line {lineno}: {e}: {raw[:120]!r}') from None

    if W is None:
        W = 2
    prog.W = W
    mask = (1 << (8 * W)) - 1
    env = dict(labels)
    env['$argc'] = len(argv)

    # pass 2: data
    for sec in ('state', 'const'):
        buf = bytearray(sizes[sec])
        for off, kind, payload, lineno in items[sec]:
            try:
                if kind == '.word':
                    for n, tree in enumerate(payload):
                        v = _eval(tree, env, W)
                        buf[off + n * W:off + (n + 1) * W] = (v & mask).to_bytes(W, 'little')
                        if tree[0] == 'name' and label_section.get(tree[1]) == 'code':
                            prog.data_code_refs.add(labels[tree[1]])
                elif kind == '.byte':
                    for n, tree in enumerate(payload):
                        buf[off + n] = _eval(tree, env, W) & 0xFF
                else:
                    buf[off:off + len(payload)] = payload
            except AsmError as e:
                raise AsmError(f'line {lineno}: {e}') from None
        if sec == 'state':
            prog.state = buf
        else:
            prog.const = buf

    # pass 2: code
    for op, ops, text, lineno in code_items:
        try:
            if op == FLAG:
                prog.code.append((op, 0, ops, 0, 0, 0, 0))
            else:
                flat = []
                for k, tree in ops:
                    v = _eval(tree, env, W) & mask
                    flat += [k, v]
                while len(flat) < 6:
                    flat += [0, 0]
                bad = None
                for n in range(0, 6, 2):
                    if flat[n] == STATE and flat[n + 1] + W > sizes['state']:
                        bad = f'direct state operand {flat[n + 1]} out of range'
                    if flat[n] == CONST and flat[n + 1] + W > sizes['const']:
                        bad = f'direct const operand {flat[n + 1]} out of range'
                if bad:
                    prog.code.append((FAULT, 0, bad, 0, 0, 0, 0))
                else:
                    prog.code.append((op, *flat))
        except AsmError as e:
            raise AsmError(f'line {lineno}: {e}') from None
        prog.code_lines.append(text)

    # memory map
    for sec in ('state', 'const'):
        marks = sorted(set(v for v, _ in label_order[sec]))
        names = {}
        for v, n in label_order[sec]:
            names.setdefault(v, []).append(n)
        objs = []
        for i, s in enumerate(marks):
            e = marks[i + 1] if i + 1 < len(marks) else sizes[sec]
            if e > s:
                objs.append((s, e, names[s][-1]))
        if sec == 'state':
            prog.state_objects = objs
        else:
            prog.const_objects = objs
    for sec, off, table_end, strs, owner in pending_const_ptr:
        if owner is not None:
            prog.arg_blobs[owner] = {'section': sec, 'table': (off, table_end), 'strings': strs}
    prog.labels = labels
    prog.label_section = label_section
    prog.finish_maps()
    return prog
