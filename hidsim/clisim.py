"""In-process simulation of the hidc command line on a fake file system with
injected I/O faults (DESIGN 2.6).  The name `open` is bound, as a module
attribute, in hidc.lexer.scanner and hidc.__main__; nothing in /repo changes.
"""
import contextlib
import errno
import io
import os
import sys

from . import hidc_api   # noqa: F401  (puts /repo on sys.path)


class FaultPlan:
    """Raise OSError(errno) at the k-th file-system call (0-based); k None = no fault."""

    def __init__(self, at=None, err=errno.EIO, short_read=None, short_write=None, eintr_at=None):
        self.at = at
        self.err = err
        self.calls = []       # log of (kind, path)
        self.fired = None
        # legal but unusual device behaviour, which must change nothing: a raw read that returns at most
        # `short_read` bytes, a raw write that accepts at most `short_write` bytes, a signal (EINTR) at call k
        self.short_read = short_read
        self.short_write = short_write
        self.eintr_at = eintr_at
        self.shorts = 0
        self.eintr_fired = 0

    def step(self, kind, path):
        i = len(self.calls)
        self.calls.append((kind, path))
        if self.eintr_at is not None and i == self.eintr_at and kind in ('read', 'write'):
            self.eintr_fired += 1
            raise InterruptedError(errno.EINTR, os.strerror(errno.EINTR))
        if self.at is not None and i == self.at:
            self.fired = (kind, path, self.err)
            raise OSError(self.err, os.strerror(self.err), path)


class _RawReader(io.RawIOBase):
    def __init__(self, fs, path, data):
        self.fs, self.path, self.buf, self.pos = fs, path, data, 0

    def readable(self):
        return True

    def readinto(self, b):
        self.fs.plan.step('read', self.path)
        n = min(len(b), len(self.buf) - self.pos)
        if self.fs.plan.short_read and n > self.fs.plan.short_read:
            n = self.fs.plan.short_read
            self.fs.plan.shorts += 1
        b[:n] = self.buf[self.pos:self.pos + n]
        self.pos += n
        return n

    def close(self):
        if not self.closed:
            super().close()


class _RawWriter(io.RawIOBase):
    def __init__(self, fs, path):
        self.fs, self.path = fs, path

    def writable(self):
        return True

    def write(self, b):
        self.fs.plan.step('write', self.path)
        n = len(b)
        if self.fs.plan.short_write and n > self.fs.plan.short_write:
            n = self.fs.plan.short_write
            self.fs.plan.shorts += 1
        self.fs.files[self.path] = self.fs.files.get(self.path, b'') + bytes(b[:n])
        return n

    def close(self):
        if not self.closed:
            try:
                self.fs.plan.step('close', self.path)
            finally:
                super().close()


class FakeFS:
    def __init__(self, files=None, dirs=(), plan=None, locale_encoding='utf-8'):
        self.files = dict(files or {})
        self.dirs = set(dirs)
        self.plan = plan or FaultPlan()
        self.created = []
        # the simulated process environment: what locale.getencoding() would say.  A text-mode open()
        # without an explicit encoding decodes with it, exactly as CPython's open() does.
        self.locale_encoding = locale_encoding
        self.locale_reads = 0

    def open(self, path, mode='r', *args, **kw):
        path = os.fspath(path)
        kind = 'open-w' if ('w' in mode or 'a' in mode) else 'open-r'
        self.plan.step(kind, path)
        if path in self.dirs:
            raise IsADirectoryError(errno.EISDIR, os.strerror(errno.EISDIR), path)
        if kind == 'open-r':
            if path not in self.files:
                raise FileNotFoundError(errno.ENOENT, os.strerror(errno.ENOENT), path)
            raw = _RawReader(self, path, self.files[path])
            if 'b' in mode:
                return io.BufferedReader(raw)
            enc = kw.get('encoding') or (args[1] if len(args) > 1 else None)
            if enc is None:
                enc = self.locale_encoding
                self.locale_reads += 1
            return io.TextIOWrapper(io.BufferedReader(raw), encoding=enc,
                                    errors=kw.get('errors'), newline=kw.get('newline'))
        d = os.path.dirname(path)
        if d and d not in self.dirs and d not in ('.', '/'):
            raise FileNotFoundError(errno.ENOENT, os.strerror(errno.ENOENT), path)
        self.files[path] = b''
        self.created.append(path)
        raw = _RawWriter(self, path)
        if 'b' in mode:
            return io.BufferedWriter(raw)
        return io.TextIOWrapper(io.BufferedWriter(raw), encoding='utf-8')


class CliResult:
    def __init__(self):
        self.status = None
        self.stdout = ''
        self.stderr = ''
        self.exception = None      # anything other than SystemExit escaping main()
        self.fs = None


class FaultyStdout(io.StringIO):
    """A standard output that cannot be written to: a full device (OSError) or an encoding that cannot
    represent the text (UnicodeEncodeError)."""

    def __init__(self, kind):
        super().__init__()
        self.kind = kind
        self.fired = False

    def write(self, text):
        if not text:
            return 0
        self.fired = True
        if self.kind == 'encode':
            raise UnicodeEncodeError('ascii', text, 0, 1, 'ordinal not in range(128)')
        raise OSError(errno.ENOSPC, os.strerror(errno.ENOSPC))


def run_cli(argv, fs, stdout_fault=None):
    """Run hidc.__main__.main() in-process on the fake file system."""
    import hidc.__main__ as cli
    import hidc.lexer.scanner as scanner
    res = CliResult()
    res.fs = fs
    out, err = (FaultyStdout(stdout_fault) if stdout_fault else io.StringIO()), io.StringIO()
    res.stdout_obj = out
    saved = (sys.argv, getattr(cli, 'open', None), getattr(scanner, 'open', None))
    cli.open = fs.open
    scanner.open = fs.open
    sys.argv = ['hidc'] + list(argv)
    try:
        with contextlib.redirect_stdout(out), contextlib.redirect_stderr(err):
            try:
                rc = cli.main()
                res.status = 0 if rc is None else rc
            except SystemExit as e:
                res.status = e.code if isinstance(e.code, int) else (0 if e.code is None else 1)
            except BaseException as e:   # noqa: BLE001 - this is exactly what C10 forbids
                res.exception = e
                res.status = 1
    finally:
        sys.argv = saved[0]
        for mod, old in ((cli, saved[1]), (scanner, saved[2])):
            if old is None:
                with contextlib.suppress(AttributeError):
                    del mod.open
            else:
                mod.open = old
    res.stdout, res.stderr = out.getvalue(), err.getvalue()
    return res
