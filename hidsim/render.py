"""AST -> HiD source text, minimal parentheses from the README precedence
table, optional seeded layout/spelling styles."""
import random
from .lang import is_arr, ARITH, COMPARE, EQUALITY

PREC_BIN = {'*': 4, '/': 4, '%': 4, '+': 5, '-': 5, '<': 6, '<=': 6, '>': 6,
            '>=': 6, '==': 6, '!=': 6, 'and': 7, 'or': 8}

NAMED = {10: '\\n', 13: '\\r', 9: '\\t', 0: '\\0', 7: '\\a', 8: '\\b', 12: '\\f'}


class Style:
    """Seeded spelling and layout choices.  Style(None) is the plain style."""

    def __init__(self, seed=None):
        self.rnd = random.Random(seed) if seed is not None else None

    def pick(self, n):
        return self.rnd.randrange(n) if self.rnd else 0

    def chance(self, p):
        return self.rnd is not None and self.rnd.random() < p

    def int_text(self, v):
        if v < 0:
            return '-' + self.int_text(-v)
        c = self.pick(8)
        if c == 1:
            return hex(v)
        if c == 2:
            return '0x' + format(v, 'X')
        if c == 3 and v < 4096:
            return bin(v)
        if c == 4:
            return oct(v)
        if c == 5 and v >= 1000:
            s = str(v)
            return s[:-3] + '_' + s[-3:]
        if c == 6:
            return '0' * (1 + self.pick(2)) + str(v)      # zero-padded decimal
        return str(v)

    def byte_text(self, b, quote):
        if b == quote or b == 0x5c:
            return '\\' + chr(b)
        if 0x20 <= b <= 0x7e:
            if self.chance(0.05):
                return '\\x%02x' % b
            if self.chance(0.03):
                return '\\u{%x}' % b
            return chr(b)
        if (b < 0x20 or b == 0x7f) and b not in (0x0a, 0x0d) and self.chance(0.2):
            return chr(b)       # a raw control character (TAB included) is legal inside a literal
        if b in NAMED and not self.chance(0.3):
            return NAMED[b]
        return ('\\x%02X' if self.chance(0.5) else '\\x%02x') % b

    def ws(self):
        if self.rnd is None:
            return ' '
        c = self.pick(12)
        if c == 0:
            return '  '
        if c == 1:
            return ' // c' + str(self.pick(100)) + '\n'
        if c == 2:
            return '\n'
        if c == 3:
            return '\t'
        return ' '


PLAIN = Style(None)


def prec(e):
    k = e[0]
    if k in ('int',):
        return 2 if e[1] < 0 else 0
    if k in ('chr', 'bool', 'str', 'var', 'call', 'arr'):
        return 0
    if k in ('idx', 'len'):
        return 1
    if k == 'un':
        return 2
    if k == 'is':
        return 3
    if k == 'bin':
        return PREC_BIN[e[1]]
    if k == 'spec':
        return 9
    raise ValueError(k)


def type_text(t):
    if is_arr(t):
        return ('const ' if t[2] else '') + t[1] + '[]'
    return t


def string_text(data, st=PLAIN):
    """data: bytes."""
    if st.rnd is not None and data and st.chance(0.3):
        try:
            text = data.decode('utf-8')
            if all(ord(c) >= 0x20 and c not in '"\\' and ord(c) != 0x7f for c in text) and text.isprintable():
                return '"' + text + '"'
        except UnicodeDecodeError:
            pass
    return '"' + ''.join(st.byte_text(b, 0x22) for b in data) + '"'


def expr(e, st=PLAIN):
    k = e[0]
    if k == 'int':
        return st.int_text(e[1])
    if k == 'chr':
        return "'" + st.byte_text(e[1], 0x27) + "'"
    if k == 'bool':
        return 'true' if e[1] else 'false'
    if k == 'str':
        return string_text(e[1].encode('latin-1'), st)
    if k == 'var':
        return e[1]
    if k == 'bin':
        L = PREC_BIN[e[1]]
        l = expr(e[2], st)
        r = expr(e[3], st)
        if prec(e[2]) > L:
            l = '(' + l + ')'
        if prec(e[3]) >= L:
            r = '(' + r + ')'
        return l + ' ' + e[1] + ' ' + r
    if k == 'un':
        a = expr(e[2], st)
        if prec(e[2]) > 2:
            a = '(' + a + ')'
        if e[1] == 'not':
            return 'not ' + a
        # avoid gluing signs into something else
        return e[1] + (' ' if a[:1] in '+-' else '') + a
    if k == 'is':
        a = expr(e[1], st)
        if prec(e[1]) > 2:
            a = '(' + a + ')'
        t = e[2]
        return a + ' is ' + (t[1] + '[]' if is_arr(t) else t)
    if k == 'idx':
        s = expr(e[1], st)
        if prec(e[1]) > 1:
            s = '(' + s + ')'
        return s + '[' + expr(e[2], st) + ']'
    if k == 'len':
        s = expr(e[1], st)
        if prec(e[1]) > 1:
            s = '(' + s + ')'
        return s + '.length'
    if k == 'call':
        return e[1] + '(' + ', '.join(expr(a, st) for a in e[2]) + ')'
    if k == 'arr':
        return '[' + ', '.join(expr(a, st) for a in e[1]) + ']'
    if k == 'spec':
        l = expr(e[1], st)
        r = expr(e[2], st)
        if prec(e[1]) > 8:
            l = '(' + l + ')'
        if prec(e[2]) > 8:
            r = '(' + r + ')'
        return l + ' ?? ' + r
    raise ValueError(k)


def simple_stmt(s, st=PLAIN):
    k = s[0]
    if k == 'decl':
        _, t, name, init, const = s
        pre = 'const ' if (const and not is_arr(t)) else ''
        return pre + type_text(t) + ' ' + name + ' = ' + expr(init, st)
    if k == 'dyn':
        return s[1] + ' ' + s[2] + '[' + expr(s[3], st) + ']'
    if k == 'set':
        return expr(s[1], st) + ' = ' + expr(s[2], st)
    if k == 'aug':
        return expr(s[2], st) + ' ' + s[1] + '= ' + expr(s[3], st)
    if k == 'expr':
        return expr(s[1], st)
    if k == 'ret':
        return 'return' if s[1] is None else 'return ' + expr(s[1], st)
    if k == 'break':
        return 'break'
    if k == 'cont':
        return 'continue'
    raise ValueError(k)


def block(b, st, ind):
    """b: ('block', stmts) -> text starting with '{'."""
    assert b[0] == 'block', b
    pad = '    ' * (ind + 1)
    out = ['{']
    for s in b[1]:
        out.append(stmt(s, st, ind + 1))
    out.append('    ' * ind + '}')
    return '\n'.join(out)


def stmt(s, st=PLAIN, ind=0):
    pad = '    ' * ind
    k = s[0]
    if st.rnd is not None and st.chance(0.04):
        pad = '// note ' + str(st.pick(1000)) + '\n' + pad
    if k == 'block':
        return pad + block(s, st, ind)
    if k == 'if':
        text = pad + 'if (' + expr(s[1], st) + ') ' + block(s[2], st, ind)
        if s[3] is not None:
            els = s[3]
            if len(els[1]) == 1 and els[1][0][0] == 'if' and not st.chance(0.5):
                text += ' else ' + stmt(els[1][0], st, ind).lstrip()
            else:
                text += ' else ' + block(els, st, ind)
        return text
    if k == 'while':
        return pad + 'while (' + expr(s[1], st) + ') ' + block(s[2], st, ind)
    if k == 'for':
        init = simple_stmt(s[1], st) if s[1] is not None else ''
        cond = expr(s[2], st) if s[2] is not None else ''
        step = simple_stmt(s[3], st) if s[3] is not None else ''
        return pad + 'for (' + init + '; ' + cond + '; ' + step + ') ' + block(s[4], st, ind)
    if k == 'try':
        return (pad + 'try ' + block(s[1], st, ind) + ' ' + s[2] + ' ' + block(s[3], st, ind))
    if k == 'preempt':
        return pad + 'preempt ' + block(s[1], st, ind)
    return pad + simple_stmt(s, st) + ';'


def func(f, st=PLAIN):
    _, ret, name, params, body = f
    ps = ', '.join(type_text(t) + ' ' + n for t, n in params)
    return ret + ' ' + name + '(' + ps + ') ' + block(body, st, 0)


def program(p, st=PLAIN):
    out = []
    for g in p[1]:
        out.append(simple_stmt(g, st) + ';')
    for f in p[2]:
        out.append(func(f, st))
    return '\n\n'.join(out) + '\n'
