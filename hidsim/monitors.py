"""Run-time monitors for the SVM (DESIGN 2.2).

Everything a monitor knows comes from the running program itself: the live
values of ap and fp, the assembler's memory map, writes to ap (array extents)
and fp (activations), and provenance tags propagated through the few
instruction forms the emitter uses on pointers.  All monitor state is rolled
back with the machine, so only verdicts on the committed timeline survive.

Verdict classes: 'mem' (C04/C17), 'scope' (C08), 'ctrl' (C16).
"""
from .asm import (IMM, STATE, CONST, HALT, J, MOV, ADD, SUB, LWS, LWC, LBS, LBC,
                  LWSO, LWCO, LBSO, LBCO, SWS, SBS, SWSO, SBSO, HGEU)

FP_TAG = 1          # tag ids: 0 none, 1 FP-derived, >= 2 AP-derived (origin of an extent)


class Monitor:
    def __init__(self, checked=True, max_verdicts=8):
        self.checked = checked
        self.max_verdicts = max_verdicts

    # ------------------------------------------------------------------ setup
    def start(self, machine, prog, mem):
        self.prog = prog
        self.mem = mem
        W = self.W = prog.W
        L = prog.labels
        self.AP = L.get('ap')
        self.FP = L.get('fp')
        self.TRY_FP = L.get('try_fp')
        self.stack_start = L.get('stack_start', 0)
        self.stack_end = L.get('stack_end', 0)
        self.enabled = self.AP is not None and self.FP is not None
        self.shadow = [0] * (len(mem) + W)
        self.sj = []                 # shadow journal (addr, old list)
        self.vj = []                 # verdict journal: verdicts live here until committed
        self.extents = None          # persistent list: (start, end, tagid, parent)
        self.frames = (self.rd(self.FP) if self.enabled else 0, None, None, None, 0)
        self.next_fid = 1
        # frame = (fp_before_call, ap_at_call, loops assoc ((pc, fp, ap), next), parent, frame id)
        self.next_tag = 2
        self.last_ap_tag = (0, -1)   # (tag id, value of ap when it was read)
        self.try_rec = None          # (fp, ap, frames) at try entry
        self.pending_handler = None
        self.max_ap = self.rd(self.AP) if self.enabled else 0
        self.min_fp = self.rd(self.FP) if self.enabled else 0
        self.low_water = self.min_fp          # lowest frame byte touched
        self.probes = {}
        self.counts = {'accesses_checked': 0, 'frame': 0, 'ap_based': 0, 'tagged_ptr': 0,
                       'untagged_ptr': 0, 'direct': 0, 'const': 0, 'guards_executed': 0,
                       'calls': 0, 'returns': 0, 'handler_unwinds': 0, 'loop_heads': 0,
                       'extents_allocated': 0}
        self.max_depth = 0
        self.depth = 0
        # const objects incl. the parts of .arg asciip arrays
        cobjs = []
        blobs = {n: v for n, v in prog.arg_blobs.items() if v['section'] == 'const'}
        for s, e, name in prog.const_objects:
            if name in blobs and blobs[name]['table'][0] == s:
                b = blobs[name]
                cobjs.append((b['table'][0], b['table'][1], name + '.table'))
                for i, (ss, se) in enumerate(b['strings']):
                    cobjs.append((ss, se, f'{name}.str{i}'))
            else:
                cobjs.append((s, e, name))
        self.const_objs = sorted(o for o in cobjs if o[1] > o[0])
        self.state_objs = list(prog.state_objects)
        # function entries: pc 0, code addresses stored as data, targets of "adjust fp; j L"
        entries = {0} | set(prog.data_code_refs)
        code = prog.code
        for i in range(1, len(code) - 1):
            ins = code[i]
            if ins[0] == J and ins[1] == IMM and code[i + 1][0] == HALT:
                p = code[i - 1]
                if (p[0] == ADD and p[2] == self.FP and p[3] == STATE and p[4] == self.FP
                        and p[5] == IMM and p[6] >> (8 * W - 1)):
                    entries.add(ins[2])      # fp lowered, then an unconditional jump: a call
        self.entries = entries
        self.entry_pred = {e - 1 for e in entries if e > 0 and code[e - 1][0] != HALT}
        machine.entry_pred = self.entry_pred
        self.static_bad = {}

    def rd(self, a):
        return int.from_bytes(self.mem[a:a + self.W], 'little')

    # --------------------------------------------------------------- rollback
    def mark(self):
        return (len(self.sj), len(self.vj), self.extents, self.frames, self.try_rec,
                self.pending_handler, self.last_ap_tag, self.depth)

    def restore(self, m):
        sj = self.sj
        sh = self.shadow
        while len(sj) > m[0]:
            a, old = sj.pop()
            sh[a:a + len(old)] = old
        del self.vj[m[1]:]
        (self.extents, self.frames, self.try_rec, self.pending_handler,
         self.last_ap_tag, self.depth) = m[2:]

    def verdict(self, cls, pc, msg):
        if len(self.vj) < self.max_verdicts:
            line = self.prog.code_lines[pc] if 0 <= pc < len(self.prog.code_lines) else '?'
            self.vj.append((cls, pc, f'{msg} [pc {pc}: {line}]'))

    def probe(self, name):
        self.probes[name] = self.probes.get(name, 0) + 1

    # ------------------------------------------------------------------- tags
    def tag_of_word(self, a):
        sh = self.shadow
        t = sh[a]
        if t and not (t & 7):
            W = self.W
            if sh[a + W - 1] == t + W - 1:
                return t >> 3
        return 0

    def set_shadow(self, a, n, tag, spec):
        sh = self.shadow
        if spec:
            self.sj.append((a, sh[a:a + n]))
        if tag:
            base = tag << 3
            for i in range(n):
                sh[a + i] = base + i
        else:
            for i in range(n):
                sh[a + i] = 0

    def operand_tag(self, k, v, value):
        """Tag carried by an operand that is about to be copied."""
        if k != STATE:
            return 0
        if v == self.FP:
            return FP_TAG
        if v == self.AP:
            t = self.next_tag
            self.next_tag += 1
            self.last_ap_tag = (t, value)
            return t
        return self.tag_of_word(v)

    # ----------------------------------------------------------------- ap / fp
    def ap_write(self, pc, old, new, tag, is_add):
        if new > old or (new == old and is_add):
            tid = self.last_ap_tag[0] if self.last_ap_tag[1] == old else 0
            self.extents = (old, new, tid, self.extents)
            self.counts['extents_allocated'] += 1
            if new == old:
                self.probe('zero_size_array')
            if new > self.max_ap:
                self.max_ap = new
        elif new < old:
            ext = self.extents
            while ext is not None and ext[0] >= new:
                ext = ext[3]
            if ext is not None and ext[1] > new:
                self.verdict('scope', pc, f'ap restored to {new}, inside the live array extent '
                                          f'[{ext[0]}, {ext[1]})')
            self.extents = ext
        fp = self.rd(self.FP)
        if self.checked and (new < self.stack_start or new > fp):
            self.verdict('mem', pc, f'ap = {new} outside [stack_start {self.stack_start}, fp {fp}]')
        ph = self.pending_handler
        if ph is not None:
            self.pending_handler = None
            if new != ph[1]:
                self.verdict('scope', pc, f'stop handler entered with ap = {new}, '
                                          f'try was entered with ap = {ph[1]}')

    def fp_write(self, pc, old, new, from_try_fp):
        ap = self.rd(self.AP)
        if self.checked and (new > self.stack_end or new < ap):
            self.verdict('mem', pc, f'fp = {new} outside [ap {ap}, stack_end {self.stack_end}]')
        if new < self.min_fp:
            self.min_fp = new
        if from_try_fp:
            self.counts['handler_unwinds'] += 1
            rec = self.try_rec
            if rec is not None:
                d = 0
                f = self.frames
                while f is not None and f[4] != rec[2][4]:
                    f = f[3]
                    d += 1
                if f is None:
                    f = rec[2]
                if d >= 2:
                    self.probe('stop_handler_from_depth_ge2')
                elif d == 1:
                    self.probe('stop_handler_from_depth_1')
                else:
                    self.probe('stop_handler_from_depth_0')
                self.depth -= d
                self.frames = f
                if new != rec[0]:
                    self.verdict('scope', pc, f'stop handler entered with fp = {new}, '
                                              f'try was entered with fp = {rec[0]}')
                self.pending_handler = rec
            return
        if new < old:
            self.counts['calls'] += 1
            self.depth += 1
            if self.depth > self.max_depth:
                self.max_depth = self.depth
            self.frames = (old, ap, None, self.frames, self.next_fid)
            self.next_fid += 1
        elif new > old:
            self.counts['returns'] += 1
            f = self.frames
            if f[3] is None:
                self.verdict('scope', pc, f'fp raised to {new} with no open activation')
                return
            self.depth -= 1
            if new != f[0]:
                self.verdict('scope', pc, f'fp after return is {new}, was {f[0]} before the call')
            if ap != f[1]:
                self.verdict('scope', pc, f'ap after return is {ap}, was {f[1]} before the call')
            self.frames = f[3]

    def jump(self, pc, target, taken):
        if not self.enabled:
            return
        if target <= pc:
            # loop head candidate: (fp, ap) must be the same at every arrival
            # within one activation
            fp = self.rd(self.FP)
            ap = self.rd(self.AP)
            f = self.frames
            node = f[2]
            found = False
            inner = False
            while node is not None:
                h = node[0][0]
                if h == target:
                    found = True
                    self.counts['loop_heads'] += 1
                    if node[0][1] != fp or node[0][2] != ap:
                        self.verdict('scope', pc, f'loop head {target} reached with (fp, ap) = '
                                                  f'({fp}, {ap}), first arrival had ({node[0][1]}, {node[0][2]})')
                elif target < h <= pc:
                    inner = True
                node = node[1]
            recs = f[2]
            if inner:
                # the records of loops nested inside this one are void from here on: when they are entered
                # again, the enclosing iteration may have allocated differently (`int b[i + 1]` before an inner loop)
                keep = []
                node = f[2]
                while node is not None:
                    if not (target < node[0][0] <= pc):
                        keep.append(node[0])
                    node = node[1]
                recs = None
                for rec in reversed(keep):
                    recs = (rec, recs)
            if not found:
                recs = ((target, fp, ap), recs)
            if recs is not f[2]:
                self.frames = (f[0], f[1], recs, f[3], f[4])

    def fallthrough(self, pc):
        """Sequential advance from pc onto a function entry."""
        self.verdict('ctrl', pc, f'control ran sequentially into the function entry at {pc + 1}')

    # -------------------------------------------------------------- accesses
    def write_direct(self, pc, ins, d, r, mem, spec):
        if not self.enabled:
            return
        op = ins[0]
        tag = 0
        if op == MOV:
            tag = self.operand_tag(ins[3], ins[4], r)
        elif op == ADD:
            if ins[3] == STATE and ins[5] == IMM:
                tag = self.operand_tag(STATE, ins[4], None) if ins[4] != self.AP else 0
            elif ins[3] == IMM and ins[5] == STATE:
                tag = self.operand_tag(STATE, ins[6], None) if ins[6] != self.AP else 0
        elif op == SUB:
            if ins[3] == STATE and ins[5] == IMM:
                tag = self.operand_tag(STATE, ins[4], None) if ins[4] != self.AP else 0
            elif (ins[3] == STATE and ins[4] == self.FP and ins[5] == STATE and ins[6] == self.AP):
                self.counts['guards_executed'] += 1
        if d == self.AP:
            self.ap_write(pc, self.rd(self.AP), r, tag, op == ADD)
            tag = 0
        elif d == self.FP:
            self.fp_write(pc, self.rd(self.FP), r,
                          op == MOV and ins[3] == STATE and ins[4] == self.TRY_FP and self.TRY_FP is not None)
            tag = 0
        elif d == self.TRY_FP and self.TRY_FP is not None:
            self.try_rec = (r, self.rd(self.AP), self.frames)
            self.probe('try_stop_entered')
        self.set_shadow(d, self.W, tag, spec)
        if self.entry_pred and pc in self.entry_pred:
            self.fallthrough(pc)

    def check_access(self, pc, ins, sec, bk, bv, has_off, ok, base, a, size, store):
        """sec: 1 state, 2 const.  bk/bv: base operand kind/value; ok: offset
        operand kind; base: value of the base operand; a: effective address."""
        self.counts['accesses_checked'] += 1
        if sec == 2:
            self.counts['const'] += 1
            key = base if (bk != IMM or (has_off and ok != IMM)) else a
            obj = self.find_const(key)
            if obj is None:
                obj = self.find_const(a)
            if obj is None or not (obj[0] <= a and a + size <= obj[1]):
                self.verdict('mem', pc, f'const access [{a}, {a + size}) outside the object '
                                        f'{obj[2] if obj else "(none)"} its base {base} belongs to')
            return
        if bk == IMM and (not has_off or ok == IMM):
            self.counts['direct'] += 1
            obj = self.prog.find_object('state', a)
            if obj is None or a + size > obj[1]:
                self.verdict('mem', pc, f'direct state access [{a}, {a + size}) is not inside one labelled object')
            elif store and obj[2] in ('ap', 'fp', 'try_fp', 'defeat'):
                self.verdict('mem', pc, f'store instruction overwrites {obj[2]}')
            return
        ap = self.rd(self.AP)
        fp = self.rd(self.FP)
        if bk == STATE and bv == self.FP:
            self.counts['frame'] += 1
            if a < self.low_water:
                self.low_water = a
            if not (ap <= a and a + size <= fp):
                self.verdict('mem', pc, f'frame access [{a}, {a + size}) outside [ap {ap}, fp {fp})')
            return
        if bk == STATE and bv == self.AP:
            self.counts['ap_based'] += 1
            ext = self.extents
            while ext is not None and ext[0] == ext[1] == ap:
                ext = ext[3]         # zero-size arrays on top own no storage
            if ext is None or ext[1] != ap or not (ext[0] <= a and a + size <= ext[1]):
                self.verdict('mem', pc, f'ap-based access [{a}, {a + size}) outside the array being '
                                        f'initialised {("[%d, %d)" % ext[:2]) if ext else "(none)"} (ap {ap})')
            return
        tag = self.tag_of_word(bv) if bk == STATE else 0
        if tag == FP_TAG:
            self.counts['tagged_ptr'] += 1
            if a < self.low_water:
                self.low_water = a
            if not (ap <= a and a + size <= fp):
                self.verdict('mem', pc, f'access [{a}, {a + size}) through a frame-derived pointer '
                                        f'outside [ap {ap}, fp {fp})')
            return
        if tag >= 2:
            self.counts['tagged_ptr'] += 1
            ext = self.extents
            while ext is not None and ext[2] != tag:
                ext = ext[3]
            if ext is None:
                self.verdict('mem', pc, f'access [{a}, {a + size}) through the origin of an array '
                                        f'that is not live (released, or never given storage)')
            elif not (ext[0] <= a and a + size <= ext[1]):
                self.verdict('mem', pc, f'access [{a}, {a + size}) outside the array extent '
                                        f'[{ext[0]}, {ext[1]}) its pointer belongs to')
            return
        # untagged pointer: locate the object from the base value
        self.counts['untagged_ptr'] += 1
        if self.stack_start <= base < self.stack_end:
            ext = self.extents
            while ext is not None and not (ext[0] <= base < ext[1] or (base == ext[0] == ext[1])):
                ext = ext[3]
            if ext is not None:
                if not (ext[0] <= a and a + size <= ext[1]):
                    self.verdict('mem', pc, f'access [{a}, {a + size}) outside the array extent '
                                            f'[{ext[0]}, {ext[1]}) that contains its base {base}')
                return
            if ap <= a and a + size <= fp:
                return
            # weak rule: inside some live extent
            ext = self.extents
            while ext is not None:
                if ext[0] <= a and a + size <= ext[1]:
                    return
                ext = ext[3]
            self.verdict('mem', pc, f'access [{a}, {a + size}) through untracked stack pointer {base} '
                                    f'is neither in [ap {ap}, fp {fp}) nor in a live array')
            return
        obj = self.prog.find_object('state', base)
        if obj is None:
            obj = self.prog.find_object('state', a)
        if obj is None or obj[2] in ('ap', 'fp', 'r0', 'r1', 'r2', 'try_fp', 'defeat', 'stack_start'):
            self.verdict('mem', pc, f'access [{a}, {a + size}) through pointer {base} hits '
                                    f'{obj[2] if obj else "no object"}')
        elif not (obj[0] <= a and a + size <= obj[1]):
            self.verdict('mem', pc, f'access [{a}, {a + size}) outside the global object {obj[2]} '
                                    f'[{obj[0]}, {obj[1]}) its base belongs to')

    def find_const(self, a):
        objs = self.const_objs
        lo, hi = 0, len(objs)
        while lo < hi:
            mid = (lo + hi) // 2
            if objs[mid][0] <= a:
                lo = mid + 1
            else:
                hi = mid
        if lo:
            o = objs[lo - 1]
            if o[0] <= a < o[1]:
                return o
        return None

    def load(self, pc, ins, sec, base, off, a, size, d, mem, spec):
        if not self.enabled:
            return
        op = ins[0]
        if self.checked:
            has_off = op >= LWSO
            self.check_access(pc, ins, sec, ins[3], ins[4], has_off, ins[5], base, a, size, False)
        tag = 0
        if sec == 1 and size == self.W:
            tag = self.tag_of_word(a)
        if d == self.AP:
            self.ap_write(pc, self.rd(self.AP), int.from_bytes(mem[a:a + self.W], 'little') if sec == 1 and size == self.W else 0, tag, False)
            tag = 0
        elif d == self.FP:
            self.fp_write(pc, self.rd(self.FP), int.from_bytes(mem[a:a + self.W], 'little'), False)
            tag = 0
        self.set_shadow(d, self.W, tag, spec)
        if self.entry_pred and pc in self.entry_pred:
            self.fallthrough(pc)

    def store(self, pc, ins, base, off, a, size, v, mem, spec):
        if not self.enabled:
            return
        op = ins[0]
        has_off = op >= SWSO
        if self.checked:
            self.check_access(pc, ins, 1, ins[1], ins[2], has_off, ins[3], base, a, size, True)
        tag = 0
        if size == self.W:
            if has_off:
                tag = self.operand_tag(ins[5], ins[6], v)
            else:
                tag = self.operand_tag(ins[3], ins[4], v)
        if a <= self.AP < a + size or a <= self.FP < a + size:
            # never done by emitted code; keep the monitor's view coherent anyway
            self.verdict('mem', pc, 'store instruction overwrites ap/fp')
        self.set_shadow(a, size, tag, spec)
        if self.entry_pred and pc in self.entry_pred:
            self.fallthrough(pc)

    # ------------------------------------------------------------------- end
    def finish(self, res):
        res.verdicts = list(self.vj)
        res.probes = dict(self.probes)
        res.max_ap = self.max_ap
        res.min_frame = min(self.low_water, self.min_fp)
        self.result_counts = dict(self.counts)
        self.result_counts['max_call_depth'] = self.max_depth
