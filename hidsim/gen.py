"""Typed, seeded generator of HiD programs that are valid by construction
against the documented rules, with margin (DESIGN 2.4).

gen_program(rnd, cfg) -> (prog, argv).  Sequential core (no time travel);
the time-travel, fault and scope profiles build on the same machinery.
"""
from .lang import arr, is_arr, ARITH, Typer

FEATURES = ('bytes', 'bools', 'strings', 'arrays', 'globals', 'overloads',
            'recursion', 'loops', 'while', 'brk', 'dyn', 'alias', 'calls',
            'shadow', 'nested', 'argv', 'boolarr', 'strarr', 'bigvals',
            'sleep', 'early_ret', 'compound')


BIG = False      # set by the thorough tier: larger programs for every other case


def swarm_cfg(rnd, W=None, **over):
    cfg = {f: rnd.random() < 0.7 for f in FEATURES}
    cfg['W'] = W if W is not None else rnd.choice((2, 2, 2, 2, 3, 3, 4, 4, 8, 8, 5, 6, 7))
    cfg['n_funcs'] = rnd.randrange(0, 5)
    cfg['n_stmts'] = rnd.randrange(4, 14)
    cfg['depth'] = rnd.randrange(1, 4)
    cfg['expr_depth'] = rnd.randrange(1, 4)
    if BIG and rnd.random() < 0.5:
        cfg['n_funcs'] = rnd.randrange(2, 8)
        cfg['n_stmts'] = rnd.randrange(10, 30)
        cfg['depth'] = rnd.randrange(2, 5)
        cfg['expr_depth'] = rnd.randrange(2, 5)
    cfg.update(over)
    return cfg


class V:
    """Variable info."""
    __slots__ = ('t', 'const', 'length', 'cval', 'fixed', 'is_global', 'init')

    def __init__(self, t, const=False, length=None, cval=None, fixed=False,
                 is_global=False, init=True):
        self.t = t
        self.const = const      # not assignable (scalars) / element-const (arrays: in t)
        self.length = length    # arrays/strings: exact length when the generator knows it
        self.cval = cval        # exact value when hidc may substitute it as a constant
        self.fixed = fixed      # loop counters: must not be assigned by generated code
        self.is_global = is_global
        self.init = init


class Unfit(Exception):
    pass


class ProgGen:
    def __init__(self, rnd, cfg):
        self.rnd = rnd
        self.cfg = cfg
        self.W = cfg['W']
        self.maxs = (1 << (8 * self.W - 1)) - 1
        self.mins = -self.maxs - 1
        self.globals = []
        self.gscope = {}
        self.scopes = []
        self.funcs = []
        self.sigs = []          # (name, ptypes, ret, flavor)
        self.counter = 0
        self.need_dump = set()
        self.argv = []
        self.cur_ret = 'empty'
        self.loop_depth = 0
        self.budget = 0

    # ------------------------------------------------------------------ util
    def name(self, prefix='v'):
        self.counter += 1
        return f'{prefix}{self.counter}'

    def chance(self, p):
        return self.rnd.random() < p

    def feat(self, f):
        return self.cfg.get(f, False)

    def all_vars(self):
        out = dict(self.gscope)
        for sc in self.scopes:
            out.update(sc)
        return out

    def vars_of(self, pred):
        return [(n, v) for n, v in self.all_vars().items() if pred(v)]

    def declare(self, name, v):
        self.scopes[-1][name] = v

    # -------------------------------------------------------------- constants
    def cval(self, e):
        """Exact value hidc's folder could compute for e, else None."""
        k = e[0]
        if k in ('int', 'chr'):
            return e[1]
        if k == 'bool':
            return int(e[1])
        if k == 'var':
            v = self.all_vars().get(e[1])
            return v.cval if v is not None else None
        if k == 'un':
            a = self.cval(e[2])
            if a is None:
                return None
            return {'-': -a, '+': a, 'not': int(not a)}[e[1]]
        if k == 'bin':
            a, b = self.cval(e[2]), self.cval(e[3])
            if a is None or b is None:
                return None
            op = e[1]
            if op in ('/', '%'):
                if b == 0:
                    raise Unfit('constant division by zero')
                return a // b if op == '/' else a % b
            return {'+': lambda: a + b, '-': lambda: a - b, '*': lambda: a * b,
                    '==': lambda: int(a == b), '!=': lambda: int(a != b),
                    '<': lambda: int(a < b), '<=': lambda: int(a <= b),
                    '>': lambda: int(a > b), '>=': lambda: int(a >= b),
                    'and': lambda: int(bool(a) and bool(b)),
                    'or': lambda: int(bool(a) or bool(b))}[op]()
        if k == 'is':
            a = self.cval(e[1])
            if a is None or is_arr(e[2]):
                return None
            if e[2] == 'bool':
                return int(bool(a))
            return a
        return None

    def fits(self, e, want=None):
        """Reject constant sub-expressions whose exact value leaves the
        word (or the byte, in byte context): their folded and run-time
        meanings may differ (that is C14's subject, not this generator's)."""
        c = self.cval(e)
        if c is None:
            return True
        if want == 'byte':
            return 0 <= c <= 255
        return self.mins <= c <= self.maxs

    # ------------------------------------------------------------ expressions
    def int_lit(self, small=False):
        r = self.rnd
        if small or not self.feat('bigvals'):
            return ('int', r.choice((0, 1, 2, 3, 5, 7, 10, 13, 42, 100, -1, -2, -7)))
        c = r.randrange(10)
        if c < 4:
            return ('int', r.choice((0, 1, -1, 2, 10, 127, 128, 255, 256, -128, -255, -256)))
        if c < 6:
            return ('int', r.choice((self.maxs, self.mins, self.maxs - 1, self.mins + 1)))
        if c < 8:
            return ('int', r.randrange(-300, 300))
        return ('int', r.randrange(self.mins, self.maxs + 1))

    def gen_int(self, d):
        """An expression of static type int or byte (coercible to int)."""
        r = self.rnd
        opts = ['lit', 'lit']
        ints = self.vars_of(lambda v: v.t == 'int' and v.init)
        if ints:
            opts += ['var'] * 3
        if self.feat('bytes') and self.vars_of(lambda v: v.t == 'byte' and v.init):
            opts.append('bytevar')
        if d > 0:
            opts += ['arith'] * 4 + ['neg', 'idx', 'len', 'cast']
            if self.feat('bytes'):
                opts.append('bytexpr')
            if self.feat('calls') and any(s[2] in ('int', 'byte') for s in self.sigs):
                opts += ['call'] * 2
        c = r.choice(opts)
        if c == 'bytexpr':
            return self.gen_byte(d - 1)          # implicit byte -> int
        if c == 'lit':
            return self.int_lit()
        if c == 'var':
            return ('var', r.choice(ints)[0])
        if c == 'bytevar':
            return ('var', r.choice(self.vars_of(lambda v: v.t == 'byte' and v.init))[0])
        if c == 'arith':
            op = r.choice(ARITH)
            left = self.gen_int(d - 1)
            if op in ('/', '%'):
                right = self.gen_divisor(d - 1)
            elif self.feat('strings') and self.feat('bytes') and self.chance(0.1):
                lit = self.str_lit(minlen=1)     # computed left operand, string-literal element on the right
                right = ('idx', lit, ('int', r.randrange(len(lit[1]))))
            else:
                right = self.gen_int(d - 1)
            e = ('bin', op, left, right)
            try:
                if self.fits(e) and self.fits(left) and self.fits(right):
                    return e
            except Unfit:
                pass
            return left if self.fits(left) else self.int_lit(True)
        if c == 'neg':
            e = ('un', r.choice('-+'), self.gen_int(d - 1))
            return e if self.fits(e) else self.int_lit(True)
        if c == 'idx':
            e = self.gen_elem(('int', 'byte'), d - 1)
            return e if e is not None else self.int_lit()
        if c == 'len':
            cands = self.vars_of(lambda v: (is_arr(v.t) or v.t == 'string') and v.init)
            if self.feat('strings') and self.chance(0.35):
                # .length of something that has to be computed first
                k = r.randrange(3)
                if k == 0:
                    e = self.gen_elem(('string',), d - 1)
                    if e is not None:
                        return ('len', e)
                if k == 1:
                    e = self.gen_call(('string',), d - 1)
                    if e is not None:
                        return ('len', e)
                return ('len', ('is', self.gen_string(d - 1), arr('byte', True)))
            if cands:
                return ('len', ('var', r.choice(cands)[0]))
            if self.feat('strings'):
                return ('len', self.str_lit())
            return self.int_lit()
        if c == 'cast':
            if self.feat('bools') and self.chance(0.5):
                b = self.gen_bool(d - 1)
                if self.cval(b) is None:
                    return ('is', b, 'int')
                # a constant bool cast to int: hidc folds it to a literal that is still coercible
                # to byte, the README does not say so - never make that observable (DESIGN 7)
                return self.int_lit()
            if self.feat('bytes'):
                return ('is', self.gen_byte(d - 1), 'int')
            return self.int_lit()
        if c == 'call':
            e = self.gen_call(('int', 'byte'), d - 1)
            return e if e is not None else self.int_lit()
        raise AssertionError(c)

    def gen_divisor(self, d):
        r = self.rnd
        c = r.randrange(4)
        if c < 2:
            return ('int', r.choice((1, 2, 3, 7, 10, -1, -2, -3, 16, 255, 256, self.maxs, self.mins)))
        k = r.choice((2, 3, 5, 7))
        return ('bin', '+', ('bin', '%', self.gen_int(d), ('int', k)), ('int', k + r.randrange(1, 4)))

    def gen_byte(self, d):
        """Static type exactly byte."""
        r = self.rnd
        opts = ['chr', 'chr']
        bs = self.vars_of(lambda v: v.t == 'byte' and v.init)
        if bs:
            opts += ['var'] * 3
        if d > 0:
            opts += ['cast', 'cast', 'idx', 'stridx']
            if self.feat('calls') and any(s[2] == 'byte' for s in self.sigs):
                opts.append('call')
        c = r.choice(opts)
        if c == 'chr':
            return ('chr', r.choice((0, 1, 10, 32, 39, 65, 92, 97, 126, 127, 128, 200, 255, r.randrange(256))))
        if c == 'var':
            return ('var', r.choice(bs)[0])
        if c == 'cast':
            if self.feat('bools') and self.chance(0.3):
                return ('is', self.gen_bool(d - 1), 'byte')
            inner = self.gen_int(d - 1)
            e = ('is', inner, 'byte')
            if self.cval(inner) is not None and not 0 <= self.cval(inner) <= 255:
                return ('chr', r.randrange(256))
            return e
        if c == 'idx':
            e = self.gen_elem(('byte',), d - 1)
            return e if e is not None else ('chr', r.randrange(256))
        if c == 'stridx':
            if not self.feat('strings'):
                return ('chr', r.randrange(256))
            cands = self.vars_of(lambda v: v.t == 'string' and v.init and v.length and v.const)
            if cands and self.chance(0.6):
                n, v = r.choice(cands)
                return ('idx', ('var', n), self.gen_index(v.length, ('var', n), d - 1))
            s = self.str_lit(minlen=1)
            return ('idx', s, ('int', r.randrange(len(s[1]))))
        if c == 'call':
            e = self.gen_call(('byte',), d - 1)
            return e if e is not None else ('chr', 65)
        raise AssertionError(c)

    def gen_bool(self, d):
        r = self.rnd
        opts = ['lit']
        bs = self.vars_of(lambda v: v.t == 'bool' and v.init)
        if bs:
            opts += ['var'] * 2
        if d > 0:
            opts += ['cmp'] * 4 + ['eq', 'logic', 'logic', 'not', 'cast', 'idx']
            if self.feat('calls') and any(s[2] == 'bool' for s in self.sigs):
                opts.append('call')
        c = r.choice(opts)
        if c == 'lit':
            return ('bool', self.chance(0.5))
        if c == 'var':
            return ('var', r.choice(bs)[0])
        if c == 'cmp':
            e = ('bin', r.choice(('<', '<=', '>', '>=', '==', '!=')),
                 self.gen_int(d - 1), self.gen_int(d - 1))
            return e
        if c == 'eq':
            return ('bin', r.choice(('==', '!=')), self.gen_bool(d - 1), self.gen_bool(d - 1))
        if c == 'logic':
            return ('bin', r.choice(('and', 'or')), self.gen_truthy(d - 1), self.gen_truthy(d - 1))
        if c == 'not':
            return ('un', 'not', self.gen_truthy(d - 1))
        if c == 'cast':
            return ('is', self.gen_truthy(d - 1, nobool=True), 'bool')
        if c == 'idx':
            e = self.gen_elem(('bool',), d - 1)
            return e if e is not None else ('bool', True)
        if c == 'call':
            e = self.gen_call(('bool',), d - 1)
            return e if e is not None else ('bool', False)
        raise AssertionError(c)

    def gen_truthy(self, d, nobool=False):
        """Anything castable to bool: bool, int, byte, string, array."""
        r = self.rnd
        c = r.randrange(10)
        if c < 5 and not nobool:
            return self.gen_bool(d)
        if c < 8:
            return self.gen_int(d)
        if c == 8 and self.feat('strings'):
            return self.gen_string(d)
        cands = self.vars_of(lambda v: is_arr(v.t) and v.init)
        if cands:
            return ('var', r.choice(cands)[0])
        return self.gen_int(d)

    def str_lit(self, minlen=0):
        r = self.rnd
        n = r.choice((0, 1, 2, 3, 5, 8)) if minlen == 0 else r.choice((1, 2, 3, 5, 8))
        pool = (b'abcXYZ 09_-,.!?' if not self.feat('bigvals') else
                bytes(range(32, 127)) + b'\n\t\x00\x7f\x80\xff\\"\'')
        data = bytes(r.choice(pool) for _ in range(n))
        return ('str', data.decode('latin-1'))

    def gen_string(self, d):
        r = self.rnd
        opts = ['lit', 'lit']
        ss = self.vars_of(lambda v: v.t == 'string' and v.init)
        if ss:
            opts += ['var'] * 2
        if d > 0:
            opts.append('idx')
            if self.feat('calls') and any(s[2] == 'string' for s in self.sigs):
                opts.append('call')
        c = r.choice(opts)
        if c == 'lit':
            return self.str_lit()
        if c == 'var':
            return ('var', r.choice(ss)[0])
        if c == 'idx':
            e = self.gen_elem(('string',), d - 1)
            return e if e is not None else self.str_lit()
        e = self.gen_call(('string',), d - 1)
        return e if e is not None else self.str_lit()

    def gen_index(self, length, src, d):
        """An in-range index for a source of known, non-zero length."""
        r = self.rnd
        if length and length <= 256 and self.feat('bytes') and self.chance(0.12):
            # a byte-typed index obtained by narrowing a wide run-time value:
            # (v * 256 + k) is byte == k whatever v holds
            ints = self.vars_of(lambda v: v.t == 'int' and v.init and v.cval is None)
            if ints:
                k = r.randrange(length)
                return ('is', ('bin', '+', ('bin', '*', ('var', r.choice(ints)[0]), ('int', 256)), ('int', k)), 'byte')
        if length and self.chance(0.5):
            return ('int', r.randrange(length))
        if length and self.chance(0.5):
            return ('bin', '%', self.gen_int(d), ('int', length))
        return ('bin', '%', self.gen_int(d), ('len', src))

    def gen_elem(self, eltypes, d):
        cands = self.vars_of(lambda v: is_arr(v.t) and v.t[1] in eltypes and v.init
                             and (v.length is None or v.length > 0))
        if not cands:
            return None
        n, v = self.rnd.choice(cands)
        return ('idx', ('var', n), self.gen_index(v.length, ('var', n), d))

    def gen_of(self, t, d):
        if t == 'int':
            return self.gen_int(d)
        if t == 'byte':
            return self.gen_byte(d)
        if t == 'bool':
            return self.gen_bool(d)
        if t == 'string':
            return self.gen_string(d)
        raise AssertionError(t)

    def gen_arg(self, pt, d):
        """Argument expression acceptable for parameter type pt."""
        r = self.rnd
        if not is_arr(pt):
            if pt == 'int' and self.feat('bytes') and self.chance(0.15):
                return self.gen_byte(d)      # byte -> int coercion
            return self.gen_of(pt, d)
        el, const = pt[1], pt[2]
        cands = self.vars_of(lambda v: is_arr(v.t) and v.t[1] == el and v.init
                             and (const or not v.t[2]) and (v.length is None or v.length > 0))
        if const and el == 'byte' and self.feat('strings') and self.chance(0.25):
            ss = self.vars_of(lambda v: v.t == 'string' and v.init and v.length and v.const)
            if ss:
                return ('var', r.choice(ss)[0])
            return self.str_lit(minlen=1)
        if cands and self.chance(0.7):
            return ('var', r.choice(cands)[0])
        n = r.randrange(1, 5)
        if el == 'string':
            return ('arr', tuple(self.gen_string(0) for _ in range(n)))
        return ('arr', tuple(self.coerced(el, d - 1) for _ in range(n)))

    def coerced(self, t, d):
        """Expression that may be stored into a slot of scalar type t."""
        if t == 'byte':
            if self.chance(0.3):
                return ('int', self.rnd.randrange(256))   # literal coercible to byte
            return self.gen_byte(max(d, 0))
        if t == 'int':
            e = self.gen_int(max(d, 0))
            return e
        return self.gen_of(t, max(d, 0))

    def gen_call(self, rets, d):
        sigs = [s for s in self.sigs if s[2] in rets]
        if not sigs:
            return None
        name, ptypes, ret, _ = self.rnd.choice(sigs)
        return self.make_call(name, ptypes, d)

    def make_call(self, name, ptypes, d):
        """Build a call that the documented overload rule binds to exactly the
        intended signature."""
        typer_scopes = self.typer_scopes()
        rec = any(s[0] == name and s[1] == tuple(ptypes) and s[3] == 'rec' for s in self.sigs)
        for _ in range(6):
            args = tuple(self.gen_arg(pt, d) for pt in ptypes)
            if rec:
                args = (('int', self.rnd.randrange(0, 4)),) + args[1:]
            e = ('call', name, args)
            try:
                got = self.typer().resolve(name, args, typer_scopes)
            except Exception:
                continue
            if got[0] == tuple(ptypes):
                return e
        return None

    def typer(self):
        prog = ('prog', tuple(self.globals), tuple(self.funcs) + tuple(self.pending_sigs()))
        return Typer(prog)

    def pending_sigs(self):
        # signatures of functions being generated (recursion) as stub funcs
        done = {(f[2], tuple(p[0] for p in f[3])) for f in self.funcs}
        out = []
        for name, ptypes, ret, _ in list(getattr(self, 'planned', [])) + list(self.sigs):
            if (name, tuple(ptypes)) not in done:
                out.append(('func', ret, name, tuple((t, f'p{i}') for i, t in enumerate(ptypes)),
                            ('block', ())))
        return out

    def typer_scopes(self):
        scopes = [{n: (v.t, v.const) for n, v in self.gscope.items()}]
        for sc in self.scopes:
            scopes.append({n: (v.t, v.const) for n, v in sc.items()})
        return scopes

    # -------------------------------------------------------------- statements
    def write_stmt(self, e, t=None):
        name = 'writeln' if self.chance(0.3) else 'write'
        return ('expr', ('call', name, (e,)))

    def sep(self):
        return ('expr', ('call', 'write', (('chr', self.rnd.choice(b' ,;|')),)))

    def show(self, n, v):
        """Statements that make variable n observable."""
        out = []
        if is_arr(v.t):
            self.need_dump.add(v.t[1])
            out.append(('expr', ('call', 'dump', (('var', n),))))
            if v.t[1] == 'byte' and self.chance(0.35):
                # the whole array through the library routine (its own loop; lengths 0 and 1 included)
                out.append(('expr', ('call', 'writeln' if self.chance(0.3) else 'write', (('var', n),))))
        elif v.t == 'byte' and self.chance(0.5):
            out.append(('expr', ('call', 'write', (('is', ('var', n), 'int'),))))
        else:
            out.append(('expr', ('call', 'write', (('var', n),))))
        out.append(self.sep())
        return out

    def scalar_types(self):
        ts = ['int', 'int']
        if self.feat('bytes'):
            ts.append('byte')
        if self.feat('bools'):
            ts.append('bool')
        if self.feat('strings'):
            ts.append('string')
        return ts

    def elem_types(self):
        ts = ['int', 'int']
        if self.feat('bytes'):
            ts.append('byte')
        if self.feat('bools') and self.feat('boolarr'):
            ts.append('bool')
        if self.feat('strings') and self.feat('strarr'):
            ts.append('string')
        return ts

    def gen_decl(self, d):
        r = self.rnd
        out = []
        if self.feat('arrays') and self.chance(0.35):
            el = r.choice(self.elem_types())
            n = self.name('a')
            c = r.randrange(10)
            if c < 5:
                ln = r.choice((0, 1, 2, 3, 4, 5, 8, 9, 17)) if el == 'bool' else r.choice((0, 1, 2, 3, 4, 6))
                const = self.chance(0.3)
                if el == 'string':
                    elems = tuple(self.gen_string(0) for _ in range(ln))
                else:
                    elems = tuple(self.coerced(el, d - 1) for _ in range(ln))
                out.append(('decl', arr(el, const), n, ('arr', elems), True))
                self.declare(n, V(arr(el, const), length=ln))
            elif c < 8 and self.feat('dyn'):
                ln = r.choice((0, 1, 2, 3, 5, 9)) if el != 'bool' else r.choice((0, 1, 7, 8, 9, 16, 20))
                lenexpr = ('int', ln)
                if self.chance(0.4):
                    ints = self.vars_of(lambda v: v.t == 'int' and v.init and v.cval is None)
                    # a run-time length: k % m + ln  (k % m is 0 for m = 1)
                    if ints:
                        lenexpr = ('bin', '+', ('bin', '%', ('var', r.choice(ints)[0]), ('int', 1)), ('int', ln))
                out.append(('dyn', el, n, lenexpr))
                self.declare(n, V(arr(el, False), length=ln, init=False))
                if self.chance(0.3):
                    # left unfilled (only its length is ever read); often a second one right behind it
                    if self.chance(0.6):
                        n2 = self.name('a')
                        el2 = r.choice(self.elem_types())
                        ln2 = r.choice((0, 1, 2, 5))
                        out.append(('dyn', el2, n2, ('int', ln2)))
                        self.declare(n2, V(arr(el2, False), length=ln2, init=False))
                        out.append(('expr', ('call', 'write', (('len', ('var', n2)),))))
                    out.append(('expr', ('call', 'write', (('len', ('var', n)),))))
                    out.append(self.sep())
                    return out
                out.extend(self.fill(n, el, ln, d))
                self.all_vars()[n].init = True
            else:
                cands = self.vars_of(lambda v: is_arr(v.t) and v.t[1] == el and v.init) if self.feat('alias') else []
                if cands:
                    src, sv = r.choice(cands)
                    # a mutable reference cannot be bound to a const declaration
                    out.append(('decl', sv.t, n, ('var', src), True))
                    self.declare(n, V(sv.t, length=sv.length))
                else:
                    return self.gen_decl_scalar(d)
            out.extend(self.show(n, self.all_vars()[n]))
            return out
        return self.gen_decl_scalar(d)

    def gen_decl_scalar(self, d):
        r = self.rnd
        t = r.choice(self.scalar_types())
        n = self.name('v')
        if self.feat('shadow') and self.gscope and self.chance(0.15):
            g = r.choice(list(self.gscope))
            if all(g not in sc for sc in self.scopes):
                # locals may shadow globals (only)
                n = g
        const = self.chance(0.2)
        e = self.coerced(t, d)
        if t == 'byte' and not self.fits(e, 'byte'):
            e = ('chr', r.randrange(256))
        if t == 'int' and not self.fits(e):
            e = self.int_lit(True)
        cv = None
        if const and t != 'string':
            cv = self.cval(e)
        ln = len(e[1]) if (t == 'string' and e[0] == 'str') else None
        if t == 'string' and e[0] == 'var':
            ln = self.all_vars()[e[1]].length
        self.declare(n, V(t, const=const, cval=cv, length=ln if const else None))
        return [('decl', t, n, e, const)] + self.show(n, self.all_vars()[n])

    def fill(self, n, el, ln, d):
        i = self.name('i')
        self.scopes.append({i: V('int', fixed=True)})
        if el == 'int':
            val = ('bin', r_choice(self.rnd, ('+', '*', '-')), ('var', i), self.int_lit(True))
        elif el == 'byte':
            val = ('is', ('bin', '+', ('var', i), ('int', self.rnd.randrange(200))), 'byte')
        elif el == 'bool':
            val = ('bin', '==', ('bin', '%', ('var', i), ('int', self.rnd.choice((2, 3)))), ('int', 0))
        else:
            val = self.str_lit()
        self.scopes.pop()
        return [('for', ('decl', 'int', i, ('int', 0), False),
                 ('bin', '<', ('var', i), ('len', ('var', n))),
                 ('aug', '+', ('var', i), ('int', 1)),
                 ('block', (('set', ('idx', ('var', n), ('var', i)), val),)))]

    def gen_gidx_assign(self, d):
        """a[gix] = bump(2): the index is a bare non-const global that the right-hand
        side changes; left-to-right evaluation stores at the old index."""
        r = self.rnd
        cands = self.vars_of(lambda v: is_arr(v.t) and not v.t[2] and v.init and v.t[1] in ('int', 'byte', 'bool')
                             and v.length is not None and v.length >= 2)
        if not cands or 'gix' not in self.gscope or any('gix' in sc for sc in self.scopes):
            return None
        n, v = r.choice(cands)
        el = v.t[1]
        callx = ('call', 'bump', (('int', 2),))
        rhs = {'int': callx, 'byte': ('is', callx, 'byte'), 'bool': ('bin', '>', callx, ('int', 40))}[el]
        tgt = ('idx', ('var', n), ('var', 'gix'))
        if el != 'bool' and self.chance(0.4):
            st = ('aug', r.choice('+-*'), tgt, callx if el == 'int' else ('int', 3))
            if el == 'byte':
                st = ('set', tgt, rhs)
        else:
            st = ('set', tgt, rhs)
        return [st] + self.show(n, v) + [('expr', ('call', 'write', (('var', 'gix'),)))]

    def gen_assign(self, d):
        r = self.rnd
        if self.feat('globals') and self.feat('calls') and self.chance(0.12):
            out = self.gen_gidx_assign(d)
            if out:
                return out
        targets = self.vars_of(lambda v: not is_arr(v.t) and not v.const and not v.fixed and v.init)
        atargets = self.vars_of(lambda v: is_arr(v.t) and not v.t[2] and v.init
                                and (v.length is None or v.length > 0))
        if atargets and (not targets or self.chance(0.4)):
            n, v = r.choice(atargets)
            el = v.t[1]
            tgt = ('idx', ('var', n), self.gen_index(v.length, ('var', n), d - 1))
            if self.feat('compound') and el in ('int', 'byte') and self.chance(0.4):
                op = r.choice(ARITH)
                rhs = self.gen_divisor(d - 1) if op in ('/', '%') else (
                    self.gen_int(d - 1) if el == 'int' else self.coerced('byte', d - 1))
                if el == 'int' and op not in ('/', '%') and self.feat('bytes') and self.chance(0.35):
                    rhs = self.gen_byte(d - 1)        # byte-typed right-hand side on a wide element
                if el == 'byte' and not self.typer().byte_coercible(rhs, self.typer_scopes()):
                    rhs = ('int', r.randrange(1, 9))
                st = ('aug', op, tgt, rhs)
            else:
                st = ('set', tgt, self.coerced(el, d - 1) if el != 'string' else self.gen_string(d - 1))
            return [st] + self.show(n, v)
        if not targets:
            return self.gen_decl(d)
        n, v = r.choice(targets)
        if self.feat('compound') and v.t in ('int', 'byte') and self.chance(0.4):
            op = r.choice(ARITH)
            if v.t == 'int':
                rhs = self.gen_divisor(d - 1) if op in ('/', '%') else self.gen_int(d - 1)
            else:
                rhs = ('int', r.randrange(1, 9)) if op in ('/', '%') else self.coerced('byte', d - 1)
                if not self.typer().byte_coercible(rhs, self.typer_scopes()):
                    rhs = ('int', r.randrange(1, 9))
            st = ('aug', op, ('var', n), rhs)
        else:
            e = self.coerced(v.t, d - 1)
            if v.t == 'byte' and not self.fits(e, 'byte'):
                e = ('chr', r.randrange(256))
            st = ('set', ('var', n), e)
        return [st] + self.show(n, v)

    def mixed_literal(self, d):
        """[1, b]-style literal mixing mutually coercible element types: its
        preferred element type is the first (in order of occurrence) that every
        element can be coerced to."""
        r = self.rnd
        n = r.randrange(2, 5)
        elems = []
        for _ in range(n):
            c = r.random()
            if c < 0.45:
                elems.append(('int', r.randrange(256)))
            elif c < 0.9:
                elems.append(self.gen_byte(0))
            else:
                elems.append(self.gen_int(0))
        if all(e[0] == 'int' for e in elems):
            elems[r.randrange(n)] = self.gen_byte(0)
        return ('arr', tuple(elems)), n

    def gen_write(self, d):
        if self.feat('bytes') and self.feat('arrays') and self.chance(0.1):
            lit, n = self.mixed_literal(d)
            try:
                t = self.typer().typ(lit, self.typer_scopes())
            except Exception:
                t = None
            if t is not None and t[1] in ('int', 'byte'):
                if self.chance(0.5):
                    self.need_dump.add('int')
                    self.need_dump.add('byte')
                    return [('expr', ('call', 'dump', (lit,))), self.sep()]
                return [('expr', ('call', 'write', (('idx', lit, ('int', self.rnd.randrange(n))),))), self.sep()]
        t = self.rnd.choice(self.scalar_types())
        e = self.gen_of(t, d)
        if t == 'int' and not self.fits(e):
            e = self.int_lit(True)
        return [self.write_stmt(e), self.sep()]

    def gen_callstmt(self, d):
        if not self.sigs or not self.feat('calls'):
            return self.gen_write(d)
        name, ptypes, ret, _ = self.rnd.choice(self.sigs)
        e = self.make_call(name, ptypes, d)
        if e is None:
            return self.gen_write(d)
        if ret != 'empty' and self.chance(0.7):
            if ret == 'byte':
                return [('expr', ('call', 'write', (('is', e, 'int'),))), self.sep()]
            return [('expr', ('call', 'write', (e,))), self.sep()]
        return [('expr', e)]

    def gen_stmt(self, depth, d):
        r = self.rnd
        opts = ['decl'] * 3 + ['assign'] * 3 + ['write'] * 2 + ['call'] * 2
        if depth > 0:
            opts += ['if'] * 2
            if self.feat('loops'):
                opts += ['for']
                if self.feat('while'):
                    opts.append('while')
            if self.feat('nested'):
                opts.append('block')
        if self.feat('sleep') and self.chance(0.05):
            return [('expr', ('call', r.choice(('debug', 'progress')), ()))] if self.chance(0.5) else \
                   [('expr', ('call', 'sleep', (('int', r.randrange(0, 300)),)))]
        c = r.choice(opts)
        if c == 'decl':
            return self.gen_decl(d)
        if c == 'assign':
            return self.gen_assign(d)
        if c == 'write':
            return self.gen_write(d)
        if c == 'call':
            return self.gen_callstmt(d)
        if c == 'if':
            cond = self.gen_truthy(d) if self.chance(0.3) else self.gen_bool(d)
            if self.chance(0.06):
                cond = self.const_cond(r.random() < 0.5)
            then = self.gen_block(depth - 1, r.randrange(1, 4), d)
            els = self.gen_block(depth - 1, r.randrange(1, 3), d) if self.chance(0.5) else None
            return [('if', cond, then, els)]
        if c == 'block':
            return [self.gen_block(depth - 1, r.randrange(1, 4), d)]
        if c == 'for':
            i = self.name('i')
            k = r.randrange(0, 5)
            self.scopes.append({i: V('int', fixed=True)})
            self.loop_depth += 1
            body = self.gen_block(depth - 1, r.randrange(1, 4), d, loop_exit=True)
            self.loop_depth -= 1
            self.scopes.pop()
            init = ('decl', 'int', i, ('int', 0), False)
            cond = ('bin', '<', ('var', i), ('int', k))
            step = ('aug', '+', ('var', i), ('int', 1))
            if self.chance(0.2):
                init = ('decl', 'int', i, ('int', k), False)
                cond = ('bin', '>', ('var', i), ('int', 0))
                step = ('aug', '-', ('var', i), ('int', 1))
            if self.chance(0.25):
                # other spellings of the three clauses: the counter declared before the loop and (re)initialised
                # by an assignment clause or not at all; the step as a plain assignment
                start = init[3]
                pre = ('decl', 'int', i, ('int', 77) if self.chance(0.5) else start, False)
                if pre[3] == start and self.chance(0.5):
                    init = None
                else:
                    init = ('set', ('var', i), start)
                if self.chance(0.5):
                    step = ('set', ('var', i), ('bin', step[1], ('var', i), ('int', 1)))
                # (the counter stays in scope after the loop; it is never read there)
                return [('block', (pre, ('for', init, cond, step, body)))]
            return [('for', init, cond, step, body)]
        if c == 'while' and self.chance(0.12):
            # a loop whose condition is a compile-time false: the body never runs, what follows does
            self.loop_depth += 1
            body = self.gen_block(depth - 1, r.randrange(1, 3), d, loop_exit=True)
            self.loop_depth -= 1
            cond = self.const_cond(False)
            if self.chance(0.3):
                i = self.name('i')
                return [('for', ('decl', 'int', i, ('int', 0), False), cond, ('aug', '+', ('var', i), ('int', 1)), body)]
            return [('while', cond, body)]
        if c == 'while':
            n = self.name('n')
            k = r.randrange(0, 5)
            self.declare(n, V('int', fixed=True))
            self.loop_depth += 1
            body = self.gen_block(depth - 1, r.randrange(1, 3), d, loop_exit=True,
                                  prefix=[('aug', '-', ('var', n), ('int', 1))])
            self.loop_depth -= 1
            return [('decl', 'int', n, ('int', k), False),
                    ('while', ('bin', '>', ('var', n), ('int', 0)), body)]
        raise AssertionError(c)

    def const_cond(self, val):
        r = self.rnd
        c = r.randrange(5)
        if c == 0:
            return ('bool', val)
        if c == 1:
            return ('bin', '<', ('int', 1), ('int', 2)) if val else ('bin', '>', ('int', 1), ('int', 2))
        if c == 2:
            return ('un', 'not', ('bool', not val))
        if c == 3:
            return ('bin', '==', ('int', 3), ('int', 3 if val else 4))
        return ('is', ('int', 5 if val else 0), 'bool')

    def gen_block(self, depth, nstmts, d, loop_exit=False, prefix=(), final=(), keep_scope=False):
        self.scopes.append({})
        stmts = list(prefix)
        for _ in range(nstmts):
            stmts.extend(self.gen_stmt(depth, d))
        if loop_exit and self.feat('brk') and self.chance(0.4):
            cond = self.gen_bool(d)
            ex = ('break',) if self.chance(0.5) else ('cont',)
            tail = self.gen_stmt(0, d) if self.chance(0.5) else []
            stmts.append(('if', cond, ('block', (ex,)), None))
            stmts.extend(tail)
        if (self.cur_ret is not None and self.feat('early_ret') and self.chance(0.08)
                and self.cur_ret_ok):
            stmts.append(('if', self.gen_bool(d), ('block', (self.ret_stmt(d),)), None))
        stmts.extend(final)
        if not keep_scope:
            self.scopes.pop()
        return ('block', tuple(stmts))

    def ret_stmt(self, d):
        if self.cur_ret == 'empty':
            return ('ret', None)
        e = self.coerced(self.cur_ret, d) if self.cur_ret != 'string' else self.gen_string(d)
        if self.cur_ret == 'byte' and not self.fits(e, 'byte'):
            e = ('chr', 66)
        if self.cur_ret == 'int' and not self.fits(e):
            e = self.int_lit(True)
        return ('ret', e)

    # --------------------------------------------------------------- functions
    def plan_helpers(self):
        """Signatures of all helpers are fixed before any body is generated, so that
        overload resolution inside every body already sees the complete overload sets."""
        r = self.rnd
        self.planned = []
        for i in range(self.cfg['n_funcs']):
            idx = i + 1
            ret = r.choice(['empty', 'int', 'int'] + (['byte'] if self.feat('bytes') else []) +
                           (['bool'] if self.feat('bools') else []) + (['string'] if self.feat('strings') else []))
            name = f'f{idx}'
            nparams = r.randrange(0, 4)
            ptypes = []
            for _ in range(nparams):
                if self.feat('arrays') and self.chance(0.3):
                    ptypes.append(arr(r.choice(self.elem_types()), self.chance(0.5)))
                else:
                    ptypes.append(r.choice(self.scalar_types()))
            if self.feat('overloads') and self.planned and self.chance(0.4):
                base = r.choice(self.planned)
                if tuple(ptypes) not in [s[1] for s in self.planned if s[0] == base[0]] and (
                        len(ptypes) >= 2 or base[0] not in ('write', 'writeln', 'sleep', 'debug', 'progress')):
                    name = base[0]
            if self.feat('overloads') and len(ptypes) >= 2 and self.chance(0.12):
                # a user overload of a library name: two or more parameters, so that it can never capture
                # the generator's own one-argument write()/sleep() calls; the library routine and the user
                # function then live in one overload set
                name = r.choice(('write', 'writeln', 'sleep', 'debug', 'progress'))
            recursive = self.feat('recursion') and self.chance(0.3)
            if recursive:
                ptypes = ['int'] + ptypes
            if any(s[0] == name and s[1] == tuple(ptypes) for s in self.planned):
                name = f'f{idx}x'
            self.planned.append((name, tuple(ptypes), ret, 'rec' if recursive else ''))

    def gen_helper(self, idx):
        r = self.rnd
        name, ptypes, ret, flag = self.planned[idx - 1]
        ptypes = list(ptypes)
        recursive = flag == 'rec'
        sig = (name, tuple(ptypes), ret, flag)
        self.scopes = [{}]
        pnames = []
        for i, t in enumerate(ptypes):
            pn = self.name('p')
            pnames.append(pn)
            self.declare(pn, V(t, length=None, fixed=(recursive and i == 0)))
        self.cur_ret = ret
        self.cur_ret_ok = True
        self.rec_stub = sig      # the function under construction takes part in overload resolution
        d = self.cfg['expr_depth']
        stmts = []
        if recursive:
            # base case first; recursive call with a strictly smaller depth
            self.scopes.append({})
            base_ret = self.ret_stmt(0)
            self.scopes.pop()
            stmts.append(('if', ('bin', '<=', ('var', pnames[0]), ('int', 0)),
                          ('block', (('expr', ('call', 'write', (('chr', ord('.')),))), base_ret)), None))
        body = self.gen_block(self.cfg['depth'] - 1, r.randrange(1, max(2, self.cfg['n_stmts'] // 2)), d,
                              keep_scope=True)
        stmts.extend(body[1])
        if recursive:
            others = []
            ok = True
            for pt in ptypes[1:]:
                a = self.gen_arg(pt, 0)
                others.append(a)
            call = ('call', name, (('bin', '-', ('var', pnames[0]), ('int', 1)),) + tuple(others))
            try:
                got = self.typer().resolve(name, call[2], self.typer_scopes())
                ok = got[0] == tuple(ptypes)
            except Exception:
                ok = False
            if ok:
                if ret == 'empty':
                    stmts.append(('expr', call))
                elif ret == 'byte':
                    stmts.append(('expr', ('call', 'write', (('is', call, 'int'),))))
                else:
                    stmts.append(('expr', ('call', 'write', (call,))))
        if ret != 'empty':
            stmts.append(self.ret_stmt(d))
        elif self.chance(0.2):
            stmts.append(('ret', None))
        f = ('func', ret, name, tuple(zip(ptypes, pnames)), ('block', tuple(stmts)))
        self.rec_stub = None
        self.sigs.append(sig)
        self.funcs.append(f)
        self.scopes = []

    def gen_globals(self):
        r = self.rnd
        if not self.feat('globals'):
            return
        for _ in range(r.randrange(0, 4)):
            n = self.name('g')
            if self.feat('arrays') and self.chance(0.4):
                el = r.choice([t for t in self.elem_types()])
                if self.chance(0.5) or not self.feat('dyn'):
                    ln = r.randrange(0, 5) if el != 'bool' else r.choice((0, 1, 5, 8, 9, 12))
                    const = self.chance(0.5)
                    elems = tuple(self.global_lit(el) for _ in range(ln))
                    self.globals.append(('decl', arr(el, const), n, ('arr', elems), True))
                    self.gscope[n] = V(arr(el, const), length=ln, is_global=True)
                else:
                    # README is silent on the initial contents of global
                    # dynamic arrays: keep them unreadable until filled
                    ln = r.randrange(1, 6)
                    self.globals.append(('dyn', el, n, ('int', ln)))
                    self.gscope[n] = V(arr(el, False), length=ln, is_global=True, init=False)
            else:
                t = r.choice(self.scalar_types())
                const = self.chance(0.4)
                e = self.global_lit(t)
                cv = self.cval(e) if t != 'string' else None
                ln = len(e[1]) if t == 'string' else None
                # hidc may substitute any global scalar with a literal initialiser in
                # global scope only; const ones everywhere
                self.globals.append(('decl', t, n, e, const))
                self.gscope[n] = V(t, const=const, cval=cv if const else None,
                                   length=ln if const else None, is_global=True)

    def global_lit(self, t):
        r = self.rnd
        if t == 'int':
            return self.int_lit()
        if t == 'byte':
            return ('chr', r.randrange(256)) if self.chance(0.6) else ('int', r.randrange(256))
        if t == 'bool':
            return ('bool', self.chance(0.5))
        return self.str_lit()

    ENTRY_SCALARS = ('int', 'byte', 'string')

    def gen_entry(self):
        r = self.rnd
        params = []
        argv = []
        self.scopes = [{}]
        if self.feat('argv'):
            for _ in range(r.randrange(0, 3)):
                t = r.choice([t for t in self.ENTRY_SCALARS
                              if t == 'int' or (t == 'byte' and self.feat('bytes'))
                              or (t == 'string' and self.feat('strings'))])
                params.append((t, self.name('q')))
            if self.feat('arrays') and self.chance(0.5):
                el = r.choice(['int'] + (['byte'] if self.feat('bytes') else []) +
                              (['string'] if self.feat('strings') and self.feat('strarr') else []))
                const = True if el == 'string' else self.chance(0.5)
                params.insert(r.randrange(len(params) + 1), (arr(el, const), self.name('q')))
        for t, n in params:
            if is_arr(t):
                ln = r.randrange(0, 5)
                for _ in range(ln):
                    argv.append(self.arg_text(t[1]))
                self.declare(n, V(t, length=ln))
            else:
                s = self.arg_text(t)
                argv.append(s)
                self.declare(n, V(t, length=len(s.encode('utf-8')) if t == 'string' else None))
        self.argv = argv
        self.cur_ret = 'empty'
        self.cur_ret_ok = True
        d = self.cfg['expr_depth']
        stmts = []
        for t, n in params:
            stmts.extend(self.show(n, self.all_vars()[n]))
        # make global dynamic arrays readable
        for n, v in self.gscope.items():
            if is_arr(v.t) and not v.init:
                stmts.extend(self.fill(n, v.t[1], v.length, d))
                v.init = True
        body = self.gen_block(self.cfg['depth'], self.cfg['n_stmts'], d, keep_scope=True)
        stmts.extend(body[1])
        # final dump of everything still in scope at function level
        for n, v in self.all_vars().items():
            if v.init:
                stmts.extend(self.show(n, v))
        f = ('func', 'empty', '@is_you', tuple(params), ('block', tuple(stmts)))
        self.funcs.append(f)
        self.scopes = []

    def arg_text(self, t):
        r = self.rnd
        if t == 'int':
            return str(self.int_lit()[1])
        if t == 'byte':
            return str(r.choice((0, 1, 65, 127, 128, 255, r.randrange(256))))
        n = r.choice((0, 1, 3, 6))
        pool = 'abcXYZ 09_-' if not self.feat('bigvals') else 'abc XYZ09_-\'"\\é世'
        return ''.join(r.choice(pool) for _ in range(n))

    def dump_funcs(self):
        out = []
        for el in sorted(self.need_dump):
            body = {
                'int': ('var', 'a'),
                'byte': ('var', 'a'),
                'bool': ('var', 'a'),
                'string': ('var', 'a'),
            }
            item = ('idx', ('var', 'a'), ('var', 'i'))
            if el == 'byte':
                item = ('is', item, 'int')
            out.append(('func', 'empty', 'dump', ((arr(el, True), 'a'),), ('block', (
                ('expr', ('call', 'write', (('chr', ord('[')),))),
                ('for', ('decl', 'int', 'i', ('int', 0), False),
                 ('bin', '<', ('var', 'i'), ('len', ('var', 'a'))),
                 ('aug', '+', ('var', 'i'), ('int', 1)),
                 ('block', (
                     ('if', ('bin', '!=', ('var', 'i'), ('int', 0)),
                      ('block', (('expr', ('call', 'write', (('chr', ord(',')),))),)), None),
                     ('expr', ('call', 'write', (item,))),
                 ))),
                ('expr', ('call', 'write', (('chr', ord(']')),))),
            ))))
        return out

    def build(self):
        self.gen_globals()
        self.extra_funcs = []
        if self.feat('globals') and self.feat('calls') and self.feat('arrays'):
            self.globals.append(('decl', 'int', 'gix', ('int', 0), False))
            self.gscope['gix'] = V('int', fixed=True, is_global=True)
            self.extra_funcs.append(('func', 'int', 'bump', (('int', 'm'),), ('block', (
                ('set', ('var', 'gix'), ('bin', '%', ('bin', '+', ('var', 'gix'), ('int', 1)), ('var', 'm'))),
                ('ret', ('bin', '+', ('var', 'gix'), ('int', 41)))))))
        self.plan_helpers()
        for i in range(self.cfg['n_funcs']):
            self.gen_helper(i + 1)
        self.gen_entry()
        funcs = self.dump_funcs() + self.extra_funcs + self.funcs
        if self.chance(0.5):
            # entry point may be declared anywhere
            funcs = [funcs[-1]] + funcs[:-1]
        return ('prog', tuple(self.globals), tuple(funcs)), list(self.argv)


def r_choice(rnd, seq):
    return rnd.choice(seq)


def gen_program(rnd, cfg):
    return ProgGen(rnd, cfg).build()
