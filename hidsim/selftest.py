"""Self-tests of the machinery (DESIGN section 6): calibration of the SVM against
the upstream code-generation tests and the README examples, and determinism of
the case loop (same VERIF_SEED twice, different worker counts, different
PYTHONHASHSEED, fresh interpreters -> identical per-case digests).

python -m hidsim.selftest [calibration] [determinism] [--cases N]
"""
import os
import subprocess
import sys

ROOT = os.path.dirname(os.path.dirname(os.path.abspath(__file__)))
REPO = os.environ.get('HID_REPO', '/repo')

EXAMPLES = [
    ('hello.hid', [], b'Hello world!\nSome numbers: 1 2 3 4 5 6 7 8 9 10\n', 'WIN'),
    ('max.hid', [], b'Array: [9, 8, 7, 6, 5, 4, 3, 2, 1, 0]\nMax value: 9\n', 'WIN'),
    ('max.hid', ['3', '9', '2'], b'Max value: 9\n', 'WIN'),
    ('sat.hid', [], b'Satisfying solution:\nX1 = false\nX2 = false\nX3 = true\n', 'WIN'),
    ('mergesort.hid', ['5', '2', '8', '1'], b'Sorted: [1, 2, 5, 8]\n', 'WIN'),
    ('factor.hid', ['15', '7'], b"Factorization of 15: (5 * 3)\nFactorization of 7: 7 -- it's prime!\n", 'WIN'),
    ('decimal.hid', ['271801', '99990'], b'271801 / 99990 = 2.7(1828)\n', 'WIN'),
    ('optional_max.hid', ['4', '8', '1'], b'Max value: 8\n', 'WIN'),
    ('ouroboros.hid', [], b'preempt block will not run\n', 'DIVERGE'),
]


def calibration():
    ok = True
    import json
    import tempfile
    cal = tempfile.NamedTemporaryFile(prefix='hidsim-cal-', suffix='.jsonl', delete=False)
    cal.close()
    env = dict(os.environ, PYTHONPATH=os.pathsep.join([os.path.join(ROOT, 'hidsim', 'shim'), ROOT]),
               PYTHONDONTWRITEBYTECODE='1', HIDSIM_CALIBRATE_REF=cal.name)
    r = subprocess.run([sys.executable, '-m', 'pytest', '-q', '-p', 'no:cacheprovider',
                        os.path.join(REPO, 'tests', 'test_codegen.py')],
                       env=env, stdout=subprocess.PIPE, stderr=subprocess.STDOUT, text=True, cwd=ROOT)
    tail = r.stdout.strip().splitlines()[-1] if r.stdout.strip() else ''
    print('calibration: upstream tests/test_codegen.py on the SVM shim:', tail)
    ok &= r.returncode == 0
    rows = [json.loads(l) for l in open(cal.name)]
    os.unlink(cal.name)
    agree = sum(1 for x in rows if x.get('ok') is True)
    bad = [x for x in rows if x.get('ok') is False or x.get('error')]
    skipped = {}
    for x in rows:
        if x.get('ok') is None:
            skipped[x.get('skip')] = skipped.get(x.get('skip'), 0) + 1
    print(f'calibration: reference interpreter (through hidsim.parse) vs SVM on the same {len(rows)} programs: '
          f'{agree} identical histories, {len(bad)} different, not comparable: {skipped}')
    for x in bad[:3]:
        print('   ', x)
    ok &= not bad
    sys.path.insert(0, ROOT)
    from hidsim.hidc_api import compile_source
    from hidsim.asm import assemble
    from hidsim.machine import Machine
    from hidsim.monitors import Monitor
    for name, argv, want, outcome in EXAMPLES:
        src = open(os.path.join(REPO, 'examples', name)).read()
        W = 3 if name == 'decimal.hid' else 2
        res = Machine(assemble(compile_source(src, word_size=W), argv), monitor=Monitor(), max_steps=5_000_000).run()
        from hidsim import parse, refmodel
        ref = refmodel.run(parse.parse(src), argv, W, uninit_zero=True)
        ref_good = ref.output() == want and ref.outcome == outcome
        good = res.output() == want and res.outcome == outcome and not res.verdicts and ref_good
        print(f'calibration: examples/{name} {argv}: SVM {res.outcome}, reference {ref.outcome} {"ok" if good else "MISMATCH " + repr(res.output()) + " / " + repr(ref.output())}'
              f'{" verdicts " + str(res.verdicts[:1]) if res.verdicts else ""}')
        ok &= good
    return ok


# the seed-independent matrices come first in these checks: start a few cases before their end, so that the
# compared range holds both matrix cases and seeded ones
FIRST = {'C01': 772, 'C02': 196, 'C04': 1185, 'C05': 1458, 'C10': 2593, 'C15': 136}


def digests(prop, cases, workers, hashseed, seed):
    env = dict(os.environ, VERIF_SEED=str(seed), VERIF_HASHSEED=str(hashseed), VERIF_SELFTEST='1')
    r = subprocess.run([os.path.join(ROOT, 'check'), prop, '--cases', str(cases), '--workers', str(workers),
                        '--first', str(FIRST.get(prop, 0)), '--digest', '--wall', '600'], env=env, stdout=subprocess.PIPE, stderr=subprocess.STDOUT,
                       text=True, cwd=ROOT)
    return sorted(l for l in r.stdout.splitlines() if l.startswith('DIGEST')), r.returncode


def determinism(cases=48, props=('C01', 'C02', 'C04', 'C05', 'C08', 'C10', 'C14', 'C15', 'C16'), seeds=(3, 11)):
    ok = True
    total = 0
    for prop in props:
        for seed in seeds:
            base, rc0 = digests(prop, cases, 16, 0, seed)
            for workers, hs in ((1, 0), (5, 12345), (16, 987654321)):
                other, rc = digests(prop, cases, workers, hs, seed)
                same = base == other and len(base) == cases
                total += len(base)
                if not same:
                    diff = [a for a, b in zip(base, other) if a != b][:3]
                    print(f'determinism: {prop} seed {seed}: workers={workers} PYTHONHASHSEED={hs} DIFFERS {diff} '
                          f'({len(base)} vs {len(other)} digests)')
                ok &= same
        print(f'determinism: {prop}: {"identical" if ok else "DIFFERENT"} per-case digests over seeds {seeds}, '
              f'workers (16,1,5,16), PYTHONHASHSEED (0,0,12345,987654321)')
    print(f'determinism: {total} case digests compared')
    return ok


def main(argv):
    what = [a for a in argv if not a.startswith('-')] or ['calibration', 'determinism']
    cases = 48
    if '--cases' in argv:
        cases = int(argv[argv.index('--cases') + 1])
        what = [w for w in what if not w.isdigit()] or ['calibration', 'determinism']
    ok = True
    if 'calibration' in what:
        ok &= calibration()
    if 'determinism' in what:
        ok &= determinism(cases)
    print('selftest:', 'PASS' if ok else 'FAIL')
    return 0 if ok else 1


if __name__ == '__main__':
    sys.exit(main(sys.argv[1:]))
