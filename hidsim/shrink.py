"""Tree minimiser for generated programs (DESIGN 2.5).

shrink(prog, argv, test, budget) repeatedly tries simpler variants and keeps
one whenever test(prog, argv) still holds (same violation class).  The test
is responsible for rejecting variants that are no longer valid programs (the
reference model / hidc acceptance do that).
"""
import time

STMT_TAGS = {'decl', 'dyn', 'set', 'aug', 'expr', 'ret', 'break', 'cont', 'block',
             'if', 'while', 'for', 'try', 'preempt'}


def _paths_blocks(node, path=()):
    """Yield paths to every ('block', stmts) node."""
    if isinstance(node, tuple):
        if node and node[0] == 'block':
            yield path
        for i, x in enumerate(node):
            if isinstance(x, tuple):
                yield from _paths_blocks(x, path + (i,))


def _get(node, path):
    for i in path:
        node = node[i]
    return node


def _set(node, path, new):
    if not path:
        return new
    i = path[0]
    return node[:i] + (_set(node[i], path[1:], new),) + node[i + 1:]


def _candidates(prog, argv):
    # 1. drop whole functions (not the entry point)
    funcs = prog[2]
    for i, f in enumerate(funcs):
        if f[2] != '@is_you':
            yield ('prog', prog[1], funcs[:i] + funcs[i + 1:]), argv
    # 2. drop globals
    for i in range(len(prog[1])):
        yield ('prog', prog[1][:i] + prog[1][i + 1:], funcs), argv
    # 3. drop statements / chunks of statements, unwrap blocks
    for path in list(_paths_blocks(prog)):
        blk = _get(prog, path)
        stmts = blk[1]
        n = len(stmts)
        if n == 0:
            continue
        size = n
        while size >= 1:
            for start in range(0, n, size):
                new = stmts[:start] + stmts[start + size:]
                if len(new) != n:
                    yield _set(prog, path, ('block', new)), argv
            size //= 2
        for i, s in enumerate(stmts):
            # replace a compound statement by one of its bodies
            if s[0] == 'if':
                yield _set(prog, path, ('block', stmts[:i] + s[2][1] + stmts[i + 1:])), argv
                if s[3] is not None:
                    yield _set(prog, path, ('block', stmts[:i] + s[3][1] + stmts[i + 1:])), argv
                    yield _set(prog, path, ('block', stmts[:i] + (('if', s[1], s[2], None),) + stmts[i + 1:])), argv
            elif s[0] == 'block':
                yield _set(prog, path, ('block', stmts[:i] + s[1] + stmts[i + 1:])), argv
            elif s[0] in ('while',):
                yield _set(prog, path, ('block', stmts[:i] + s[2][1] + stmts[i + 1:])), argv
            elif s[0] == 'for':
                yield _set(prog, path, ('block', stmts[:i] + ((s[1],) if s[1] else ()) + s[4][1] + stmts[i + 1:])), argv
            elif s[0] == 'try':
                yield _set(prog, path, ('block', stmts[:i] + s[1][1] + stmts[i + 1:])), argv
                yield _set(prog, path, ('block', stmts[:i] + s[3][1] + stmts[i + 1:])), argv
            elif s[0] == 'preempt':
                yield _set(prog, path, ('block', stmts[:i] + s[1][1] + stmts[i + 1:])), argv
    # 4. simplify expressions: replace a sub-expression by a literal or by one
    #    of its own operands
    for path, e in list(_expr_paths(prog)):
        k = e[0]
        if k == 'bin':
            yield _set(prog, path, e[2]), argv
            yield _set(prog, path, e[3]), argv
        elif k in ('un',):
            yield _set(prog, path, e[2]), argv
        elif k == 'is':
            yield _set(prog, path, e[1]), argv
        elif k == 'spec':
            yield _set(prog, path, e[1]), argv
            yield _set(prog, path, e[2]), argv
        if k in ('bin', 'un', 'call', 'idx', 'len', 'var', 'is'):
            for lit in (('int', 0), ('int', 1), ('bool', True), ('bool', False), ('chr', 65)):
                yield _set(prog, path, lit), argv
        if k == 'int' and e[1] not in (0, 1):
            yield _set(prog, path, ('int', 0)), argv
            yield _set(prog, path, ('int', 1)), argv
            if abs(e[1]) > 3:
                yield _set(prog, path, ('int', e[1] // 2)), argv
        if k == 'str' and len(e[1]) > 1:
            yield _set(prog, path, ('str', e[1][:len(e[1]) // 2])), argv
        if k == 'arr' and len(e[1]) > 1:
            yield _set(prog, path, ('arr', e[1][:len(e[1]) // 2])), argv
    # 5. argv
    for i in range(len(argv)):
        yield prog, argv[:i] + argv[i + 1:]
        if argv[i] not in ('0', '1', ''):
            yield prog, argv[:i] + ['0' if argv[i].lstrip('-').isdigit() else ''] + argv[i + 1:]


EXPR_TAGS = {'int', 'chr', 'bool', 'str', 'var', 'bin', 'un', 'is', 'idx', 'len', 'call',
             'arr', 'spec'}


def _expr_paths(node, path=(), in_target=False):
    if not isinstance(node, tuple) or not node:
        return
    tag = node[0]
    if isinstance(tag, str) and tag in EXPR_TAGS and _looks_like_expr(node):
        if not in_target:
            yield path, node
    for i, x in enumerate(node):
        if isinstance(x, tuple):
            # do not rewrite assignment targets, types or parameter lists
            if isinstance(tag, str) and tag in ('set',) and i == 1:
                continue
            if isinstance(tag, str) and tag == 'aug' and i == 2:
                continue
            if isinstance(tag, str) and tag == 'func' and i == 3:
                continue
            if isinstance(tag, str) and tag in ('decl', 'dyn') and i == 1:
                continue
            if isinstance(tag, str) and tag == 'is' and i == 2:
                continue
            yield from _expr_paths(x, path + (i,))


def _looks_like_expr(n):
    t = n[0]
    if t == 'int':
        return len(n) == 2 and isinstance(n[1], int)
    if t == 'bool':
        return len(n) == 2 and isinstance(n[1], bool)
    if t == 'chr':
        return len(n) == 2 and isinstance(n[1], int)
    if t == 'str':
        return len(n) == 2 and isinstance(n[1], str)
    if t == 'var':
        return len(n) == 2 and isinstance(n[1], str)
    if t == 'arr':
        return len(n) == 2 and isinstance(n[1], tuple)
    return True


def size_of(node):
    if isinstance(node, tuple):
        return 1 + sum(size_of(x) for x in node)
    return 1


def shrink(prog, argv, test, budget_s=20.0, max_tests=600):
    t0 = time.time()
    tests = 0
    argv = list(argv)
    improved = True
    while improved and time.time() - t0 < budget_s and tests < max_tests:
        improved = False
        for cand, cargv in _candidates(prog, argv):
            if time.time() - t0 > budget_s or tests >= max_tests:
                break
            if cand == prog and cargv == argv:
                continue
            tests += 1
            try:
                ok = test(cand, list(cargv))
            except Exception:   # noqa: BLE001 - an invalid variant
                ok = False
            if ok:
                prog, argv = cand, list(cargv)
                improved = True
                break
    return prog, argv, tests
