"""Own AST for HiD programs (plain tuples, JSON-serialisable) and a static
typer written from the README ("Types", "Operators", "Functions").  Shares no
code with hidc.

Types : 'int' | 'byte' | 'bool' | 'string' | 'empty' | ('arrt', el, const)
Expr  : ('int', v) ('chr', v) ('bool', v) ('str', latin1-text) ('var', name)
        ('bin', op, l, r) ('un', op, e) ('is', e, type) ('idx', src, i)
        ('len', src) ('call', name, (args...)) ('arr', (elems...)) ('spec', l, r)
Stmt  : ('decl', type, name, init, const) ('dyn', eltype, name, lenexpr)
        ('set', target, e) ('aug', op, target, e) ('expr', e) ('ret', e|None)
        ('break',) ('cont',) ('block', (stmts...)) ('if', c, then, else|None)
        ('while', c, body) ('for', init|None, c|None, step|None, body)
        ('try', body, 'undo'|'stop', handler) ('preempt', body)
Func  : ('func', ret, name, ((type, name), ...), body)      name carries @ or !
Prog  : ('prog', (global decls...), (funcs...))
"""
import json

ARITH = ('+', '-', '*', '/', '%')
COMPARE = ('<', '<=', '>', '>=')
EQUALITY = ('==', '!=')
LOGICAL = ('and', 'or')
SCALARS = ('int', 'byte', 'bool', 'string')


def is_arr(t):
    return isinstance(t, tuple) and len(t) == 3 and t[0] == 'arrt'


def arr(el, const=False):
    return ('arrt', el, bool(const))


def type_str(t):
    if is_arr(t):
        return ('const ' if t[2] else '') + t[1] + '[]'
    return t


def to_json(node):
    if isinstance(node, tuple):
        return [to_json(x) for x in node]
    if isinstance(node, list):
        return {'__list__': [to_json(x) for x in node]}
    return node


def from_json(node):
    if isinstance(node, list):
        return tuple(from_json(x) for x in node)
    if isinstance(node, dict):
        return [from_json(x) for x in node['__list__']]
    return node


def dumps(node):
    return json.dumps(to_json(node))


def loads(text):
    return from_json(json.loads(text))


class TypeErr(Exception):
    pass


BUILTINS = (
    # (name, param types, return type)
    ('!is_defeat', (), 'empty'),
    ('!truth_is_defeat', ('bool',), 'empty'),
    ('write', ('string',), 'empty'),
    ('write', (arr('byte', True),), 'empty'),
    ('write', ('int',), 'empty'),
    ('write', ('byte',), 'empty'),
    ('write', ('bool',), 'empty'),
    ('writeln', ('string',), 'empty'),
    ('writeln', (arr('byte', True),), 'empty'),
    ('writeln', ('int',), 'empty'),
    ('writeln', ('byte',), 'empty'),
    ('writeln', ('bool',), 'empty'),
    ('writeln', (), 'empty'),
    ('all_is_win', (), 'empty'),
    ('all_is_broken', (), 'empty'),
    ('sleep', ('int',), 'empty'),
    ('debug', (), 'empty'),
    ('progress', (), 'empty'),
)


class Typer:
    """Static types of expressions given variable scopes and the function
    table.  scopes: list of dict name -> (type, const)."""

    def __init__(self, prog):
        self.funcs = {}   # name -> list of (param types, ret, decl or None) in declaration order
        for name, params, ret in BUILTINS:
            self.funcs.setdefault(name, []).append((tuple(params), ret, None))
        for f in prog[2]:
            self.funcs.setdefault(f[2], []).append(
                (tuple(p[0] for p in f[3]), f[1], f))

    # -- coercibility ------------------------------------------------------
    def byte_coercible(self, e, scopes):
        """'coercible to byte' in the README's sense for arithmetic."""
        k = e[0]
        if k == 'int':
            return True
        if k == 'bin' and e[1] in ARITH:
            return self.byte_coercible(e[2], scopes) and self.byte_coercible(e[3], scopes)
        if k == 'un' and e[1] in ('+', '-'):
            return self.byte_coercible(e[2], scopes)
        return self.typ(e, scopes) == 'byte'

    def coercible(self, e, t, scopes):
        te = self.typ(e, scopes)
        if te == t:
            return True
        if e[0] == 'arr' or (e[0] == 'is' and e[1][0] == 'arr' and is_arr(e[2])):
            lit = e if e[0] == 'arr' else e[1]
            if not is_arr(t):
                return False
            if e[0] == 'is':
                return te[1] == t[1]      # type locked, const flexible
            return all(self.coercible(x, t[1], scopes) for x in lit[1])
        if is_arr(te):
            return is_arr(t) and te[1] == t[1] and t[2]
        if te == 'byte' and t == 'int':
            return True
        if te == 'string' and t == arr('byte', True):
            return True
        if te == 'int' and t == 'byte':
            return self.byte_coercible(e, scopes)
        return False

    # -- types -------------------------------------------------------------
    def lookup(self, name, scopes):
        for sc in reversed(scopes):
            if name in sc:
                return sc[name]
        raise TypeErr(f'{name} is empty')

    def resolve(self, name, args, scopes):
        """-> (param types, ret, decl)   README: exact match, else the first
        declared overload every argument can be coerced to."""
        cands = self.funcs.get(name)
        if not cands:
            raise TypeErr(f'no function {name}')
        ats = tuple(self.typ(a, scopes) for a in args)
        for c in cands:
            if c[0] == ats:
                return c
        for c in cands:
            if len(c[0]) == len(args) and all(
                    self.coercible(a, pt, scopes) for a, pt in zip(args, c[0])):
                return c
        raise TypeErr(f'no matching function {name}{ats}')

    def typ(self, e, scopes):
        k = e[0]
        if k == 'int':
            return 'int'
        if k == 'chr':
            return 'byte'
        if k == 'bool':
            return 'bool'
        if k == 'str':
            return 'string'
        if k == 'var':
            return self.lookup(e[1], scopes)[0]
        if k == 'bin':
            if e[1] in ARITH:
                return 'int'
            return 'bool'
        if k == 'un':
            return 'bool' if e[1] == 'not' else 'int'
        if k == 'is':
            t = e[2]
            if is_arr(t):
                return arr(t[1], True)
            return t
        if k == 'idx':
            ts = self.typ(e[1], scopes)
            if ts == 'string':
                return 'byte'
            if is_arr(ts):
                return ts[1]
            raise TypeErr('index of non-array')
        if k == 'len':
            return 'int'
        if k == 'call':
            return self.resolve(e[1], e[2], scopes)[1]
        if k == 'arr':
            # first type all entries can be coerced to; preferentially const
            if not e[1]:
                return arr('empty', True)
            seen = []
            for x in e[1]:
                tx = self.typ(x, scopes)
                if tx not in seen:
                    seen.append(tx)
            for t in seen:
                if all(self.coercible(x, t, scopes) for x in e[1]):
                    return arr(t, True)
            raise TypeErr('array type unresolvable')
        if k == 'spec':
            return self.typ(e[1], scopes)
        raise TypeErr(f'unknown expression {k}')


# -- generic tree helpers ------------------------------------------------------
def walk(node):
    """Yield every tuple node of a tree (pre-order)."""
    if isinstance(node, tuple):
        yield node
        for x in node:
            if isinstance(x, tuple):
                yield from walk(x)


def contains_preempt(body):
    return any(n and n[0] == 'preempt' for n in walk(body))


def uses_time_travel(prog):
    for n in walk(prog):
        if n and n[0] in ('try', 'preempt', 'spec'):
            return True
    return False
