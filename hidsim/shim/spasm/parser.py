class Parser:
    def __init__(self, args=()):
        self.args = list(args)
        self.lines = []

    def parse_lines(self, lines):
        self.lines.extend(lines)

    def get_program(self):
        from hidsim.asm import assemble
        prog = assemble(self.lines, self.args)
        prog.argv_used = list(self.args)
        return prog
