from hidsim.machine import Machine, DEFEAT


class Emulator:
    """Runs the whole program on the SVM at the first step() and then replays
    the committed events one per step(); step() returns False once a
    committed halt is reached."""

    def __init__(self, prog, ctx=None, max_steps=5_000_000):
        self.prog = prog
        self.ctx = ctx
        self._events = None
        self._pos = 0
        self._max = max_steps

    def step(self):
        if self._events is None:
            self._res = Machine(self.prog, max_steps=self._max).run()
            if self._res.outcome in ('MACHINE_FAULT', 'BUDGET'):
                raise RuntimeError(f'SVM: {self._res.outcome} {self._res.fault}')
            self._events = self._res.events
        if self._pos < len(self._events):
            kind, val = self._events[self._pos]
            self._pos += 1
            if kind == 'o':
                self.ctx.output(bytes([val]))
            elif kind == 's':
                self.ctx.sleep(val)
            else:
                self.ctx.on_flag(self.prog, val)
            return True
        return self._res.outcome != DEFEAT
