from hidsim.machine import Machine, DEFEAT


class Emulator:
    """Runs the whole program on the SVM at the first step() and then replays
    the committed events one per step(); step() returns False once a
    committed halt is reached."""

    def __init__(self, prog, ctx=None, max_steps=5_000_000):
        self.prog = prog
        self.ctx = ctx
        self._events = None
        self._pos = 0
        self._max = max_steps

    def step(self):
        if self._events is None:
            self._res = Machine(self.prog, max_steps=self._max).run()
            if self._res.outcome in ('MACHINE_FAULT', 'BUDGET'):
                raise RuntimeError(f'SVM: {self._res.outcome} {self._res.fault}')
            self._events = self._res.events
            self._calibrate_ref()
        if self._pos < len(self._events):
            kind, val = self._events[self._pos]
            self._pos += 1
            if kind == 'o':
                self.ctx.output(bytes([val]))
            elif kind == 's':
                self.ctx.sleep(val)
            else:
                self.ctx.on_flag(self.prog, val)
            return True
        return self._res.outcome != DEFEAT

    def _calibrate_ref(self):
        import json
        import os
        path = os.environ.get('HIDSIM_CALIBRATE_REF')
        if not path:
            return
        import spasm
        from hidsim import parse, refmodel
        from hidsim.machine import history_of
        rec = {'ok': None}
        try:
            if spasm.last_source is None:
                rec['skip'] = 'hand-written assembly'
            else:
                tree = parse.parse(spasm.last_source)
                argv = list(getattr(self.prog, 'argv_used', []))
                ref = refmodel.run(tree, argv, self.prog.W, stack_bytes=len(self.prog.state))
                unspecified = ref.outcome == 'UNSPECIFIED'
                if unspecified:
                    ref = refmodel.run(tree, argv, self.prog.W, uninit_zero=True, stack_bytes=len(self.prog.state))
                rec['ref'] = ref.outcome
                rec['svm'] = self._res.outcome
                if ref.outcome in ('WIN', 'ERROR', 'DIVERGE'):
                    want = [list(e) for e in ref.history]
                    got = [list(e) for e in history_of(self._res.events)]
                    rec['ok'] = want == got and ref.outcome == self._res.outcome
                    if not rec['ok']:
                        if self._res.error_kind == 'stack_overflow' and want[:len(got) - 2] == got[:-2]:
                            rec['ok'] = None
                            rec['skip'] = 'stack-size dependent (the SVM output is a prefix of the reference output)'
                        elif unspecified:
                            rec['ok'] = None
                            rec['skip'] = 'reads uninitialised elements: contents unspecified'
                        else:
                            rec['want'] = str(want)[:300]
                            rec['got'] = str(got)[:300]
                else:
                    rec['skip'] = f'reference run is {ref.outcome}: {ref.why}'
            rec['first_line'] = (spasm.last_source or '').strip().splitlines()[:1]
        except Exception as e:   # noqa: BLE001
            rec['error'] = f'{type(e).__name__}: {e}'
        spasm.last_source = None
        with open(path, 'a') as f:
            f.write(json.dumps(rec) + '\n')
