"""Calibration shim: the part of spasm's API that /repo/tests/test_codegen.py
uses, implemented on top of the SVM.  Only ever put on sys.path by
hidsim.selftest; it is not spasm and is not used by any property check."""
