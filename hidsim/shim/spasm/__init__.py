"""Calibration shim: the part of spasm's API that /repo/tests/test_codegen.py
uses, implemented on top of the SVM.  Only ever put on sys.path by
hidsim.selftest; it is not spasm and is not used by any property check.

With HIDSIM_CALIBRATE_REF=<file> every program the upstream tests compile is
also parsed by hidsim.parse and run on the reference interpreter, and the two
histories are compared; one JSON line per program is appended to <file>."""
import os

last_source = None

if os.environ.get('HIDSIM_CALIBRATE_REF'):
    import hidsim.hidc_api  # noqa: F401
    from hidc.lexer import SourceCode as _SC
    _orig = _SC.from_string.__func__

    def _from_string(cls, string, filename='<string>'):
        global last_source
        last_source = string
        return _orig(cls, string, filename)
    _SC.from_string = classmethod(_from_string)
