"""Glue between generated programs, the real hidc and the SVM."""
import hashlib
import random

from . import hidc_api, render, refmodel
from .asm import assemble, AsmError, ArgError
from .machine import Machine, WIN, ERROR, DIVERGE, DEFEAT, BUDGET, MACHINE_FAULT


class Built:
    __slots__ = ('lines', 'prog', 'error', 'error_kind')


def build(src, W=2, stack=500, unchecked=False, lint=False, argv=()):
    """Compile with the real hidc and assemble.  error_kind in
    None | 'rejected' | 'internal' | 'asm' | 'arg'."""
    b = Built()
    b.lines = b.prog = b.error = b.error_kind = None
    try:
        b.lines = hidc_api.compile_source(src, word_size=W, stack_size=stack,
                                          unchecked=unchecked, lint=lint)
    except hidc_api.CompilerError as e:
        b.error, b.error_kind = f'{type(e).__name__}: {e}', 'rejected'
        return b
    except RecursionError as e:
        b.error, b.error_kind = 'RecursionError', 'internal'
        return b
    except Exception as e:   # noqa: BLE001 - anything else is an internal error of hidc
        b.error, b.error_kind = f'{type(e).__name__}: {e}', 'internal'
        return b
    try:
        b.prog = assemble(b.lines, argv)
    except ArgError as e:
        b.error, b.error_kind = str(e), 'arg'
    except AsmError as e:
        b.error, b.error_kind = str(e), 'asm'
    return b


def run_svm(prog, monitor=None, max_steps=2_000_000, poison_seed=None, keep_last=0):
    poison = random.Random(poison_seed) if poison_seed is not None else None
    return Machine(prog, monitor=monitor, max_steps=max_steps, poison=poison,
                   keep_last=keep_last).run()


def hist_text(history, limit=400):
    """Compact printable form of an event history."""
    out = []
    buf = bytearray()
    for e in history:
        if e[0] == 'o':
            buf.append(e[1])
        else:
            if buf:
                out.append(repr(bytes(buf))[1:])
                buf = bytearray()
            out.append(f'<{e[1]}>' if e[0] == 'f' else f'<sleep {e[1]}>')
    if buf:
        out.append(repr(bytes(buf))[1:])
    s = ' '.join(out)
    return s if len(s) <= limit else s[:limit] + '...'


def first_diff(h1, h2):
    n = min(len(h1), len(h2))
    for i in range(n):
        if tuple(h1[i]) != tuple(h2[i]):
            return i
    return n if len(h1) != len(h2) else None


def digest(*parts):
    h = hashlib.blake2b(digest_size=8)
    for p in parts:
        if isinstance(p, str):
            p = p.encode('utf-8')
        elif not isinstance(p, (bytes, bytearray)):
            p = repr(p).encode('utf-8')
        h.update(p)
        h.update(b'\0')
    return h.hexdigest()


REF_OK = (refmodel.WIN, refmodel.ERROR, refmodel.DIVERGE)


def compare_with_ref(ref, res):
    """-> None if the SVM run agrees with the reference run, else a short
    description.  Only call when ref.outcome is in REF_OK."""
    if res.outcome == BUDGET:
        return None
    if res.outcome == DEFEAT:
        return f'committed halt: {res.fault}'
    if res.outcome == MACHINE_FAULT:
        return f'machine fault: {res.fault}'
    want = [tuple(e) for e in ref.history]
    got = [tuple(e) for e in res.history]
    if res.outcome != ref.outcome or want != got:
        i = first_diff(want, got)
        return (f'history differs at event {i}: expected {ref.outcome}'
                f'{"/" + ref.error_kind if ref.error_kind else ""} [{hist_text(want)}] '
                f'got {res.outcome}{"/" + str(res.error_kind) if res.error_kind else ""} '
                f'[{hist_text(got)}]')
    return None
