"""Generator of time-travel programs (try/undo, try/stop, preempt, ??,
defeat functions, preemptive defeat functions) - DESIGN 3/C02.

Programs obey the documented flavour/context rules by construction:
  you-functions : ordinary + you calls, try blocks, ??
  try bodies    : ordinary + defeat calls, preempt; no try, no ??, no you calls
  handlers      : you context again
  defeat funcs  : ordinary + defeat calls, preempt
  ?? operands   : ordinary calls only
Exits (break/continue/return/defeat/terminal calls) are always the last
statement of their block, so nothing depends on unreachable-code handling.
"""
from .build import *   # noqa: F401,F403
from .lang import arr

TT_FEATURES = ('undo', 'stop', 'preempt', 'spec', 'defeat_funcs', 'preemptive_funcs', 'recursion',
               'loops_around_try', 'exits_from_try', 'handler_try', 'you_helpers', 'arrays',
               'canary', 'loops_in_try', 'nihilism', 'terminal_calls', 'diverge', 'doomed')


def swarm_cfg_tt(rnd, **over):
    cfg = {f: rnd.random() < 0.7 for f in TT_FEATURES}
    cfg['terminal_calls'] = rnd.random() < 0.15
    cfg['diverge'] = rnd.random() < 0.08
    cfg['doomed'] = rnd.random() < 0.3      # try bodies that mostly end in certain defeat
    if rnd.random() < 0.12:
        # tiny programs: whole-program conditions (only try/undo anywhere, a single defeat
        # function, no preempt ...) need the absence of everything else
        for f in ('stop', 'preempt', 'spec', 'preemptive_funcs', 'you_helpers', 'handler_try', 'canary', 'nihilism'):
            cfg[f] = rnd.random() < 0.15
        cfg['undo'] = True
        cfg['defeat_funcs'] = True
        cfg['loops_in_try'] = True
        cfg['tiny'] = True
    if not (cfg['undo'] or cfg['stop']):
        cfg['undo'] = True
    cfg['W'] = rnd.choice((2, 2, 3, 4))
    from . import gen as _gen
    cfg['n_segments'] = rnd.randrange(1, 6) if not (_gen.BIG and rnd.random() < 0.5) else rnd.randrange(4, 12)
    cfg['max_preempts'] = rnd.randrange(0, 7)
    cfg.update(over)
    return cfg


class TTGen:
    def __init__(self, rnd, cfg):
        self.rnd = rnd
        self.cfg = cfg
        self.mark = 0
        self.funcs = []
        self.dfuncs = []     # (name, ret, preemptive, recursive)
        self.yfuncs = []     # (name, ret)
        self.n = 0
        self.ints = []       # int variable names in scope (assignable)
        self.ro_ints = []    # read-only ints (params, loop counters)
        self.arrs = []       # (name, length) int arrays
        self.bits = []       # (name, length) bool arrays
        self.preempt_budget = 0
        self.in_loop = False
        self.ret_type = 'empty'

    def feat(self, f):
        return self.cfg.get(f, False)

    def chance(self, p):
        return self.rnd.random() < p

    def name(self, p):
        self.n += 1
        return f'{p}{self.n}'

    def marker(self):
        self.mark += 1
        m = self.mark
        return write(S(f'<{m}>'))

    # -------------------------------------------------------------- expressions
    def int_expr(self, d=1):
        r = self.rnd
        pool = self.ints + self.ro_ints
        c = r.randrange(8)
        if not pool or c == 0:
            return I(r.choice((0, 1, 2, 3, 5, 7, -1)))
        v = V(r.choice(pool))
        if d <= 0 or c < 3:
            return v
        if c < 5:
            return bin_(r.choice('+-*'), v, I(r.choice((1, 2, 3))))
        if c == 5:
            return bin_('%', v, I(r.choice((2, 3, 5))))
        if c == 6 and self.arrs:
            a, ln_ = r.choice(self.arrs)
            return idx(a, bin_('%', self.int_expr(0), I(ln_)))
        if c == 7 and r.random() < 0.5:
            return call('o3', v)          # an ordinary function that divides (never by zero)
        return bin_(r.choice('+-'), v, self.int_expr(d - 1))

    def bool_expr(self, d=1):
        r = self.rnd
        c = r.randrange(8)
        if c < 4 or d <= 0:
            if self.bits and r.random() < 0.3:
                b, ln_ = r.choice(self.bits)
                e = idx(b, I(r.randrange(ln_)))
                return ('un', 'not', e) if r.random() < 0.4 else e
            return bin_(r.choice(('<', '<=', '>', '>=', '==', '!=')), self.int_expr(1),
                        self.int_expr(0) if r.random() < 0.5 else I(r.randrange(-2, 8)))
        if c < 6:
            return bin_(r.choice(('and', 'or')), self.bool_expr(d - 1), self.bool_expr(d - 1))
        if c == 6:
            return ('un', 'not', self.bool_expr(d - 1))
        return is_(self.int_expr(1), 'bool')

    # --------------------------------------------------------------- statements
    def plain(self):
        """One effectful plain statement (allowed in every context)."""
        r = self.rnd
        c = r.randrange(6)
        if c == 0 or not self.ints:
            return [self.marker()]
        if c < 3:
            v = r.choice(self.ints)
            if r.random() < 0.5:
                return [aug(r.choice('+-*'), v, I(r.choice((1, 2, 3))))]
            return [setv(v, self.int_expr(1))]
        if c == 3 and self.arrs:
            a, ln_ = r.choice(self.arrs)
            return [setv(idx(a, I(r.randrange(ln_))), self.int_expr(1))]
        if c == 4 and self.bits:
            b, ln_ = r.choice(self.bits)
            i = I(r.randrange(ln_))
            return [setv(idx(b, i), ('un', 'not', idx(b, i)) if r.random() < 0.6 else self.bool_expr(0))]
        if c == 5 and r.random() < 0.5:
            return [write(self.int_expr(1)), write(C(' '))]
        return [self.marker()]

    def dump(self):
        out = [write(C('{'))]
        for v in self.ints:
            out += [write(V(v)), write(C(','))]
        for a, _ in self.arrs:
            out += [ex(call('dump', V(a)))]
        for b, _ in self.bits:
            out += [ex(call('dump', V(b)))]
        out += [write(C('}'))]
        return out

    def defeat_stmt(self):
        """A statement that may cause defeat (try bodies / defeat functions)."""
        r = self.rnd
        c = r.randrange(10)
        if r.random() < 0.07:
            # compile-time constant conditions have their own lowering (bare defeat / nothing at all)
            return [ex(call('!truth_is_defeat', r.choice((
                B(True), B(False), bin_('<', I(1), I(2)), ('un', 'not', B(False)), is_(I(3), 'bool'),
                bin_('==', I(2), I(3)), bin_('or', B(True), B(False)), is_(I(0), 'bool')))))]
        if c < 5:
            return [ex(call('!truth_is_defeat', self.bool_expr(2)))]
        if c < 8 and self.dfuncs and self.feat('defeat_funcs'):
            return self.defeat_call()
        if c == 8:
            return [ex(call('!truth_is_defeat', bin_('or', self.bool_expr(1), self.bool_expr(1))))]
        return [ex(call('!truth_is_defeat', ('un', 'not', self.bool_expr(1))))]

    def defeat_call(self, only=None):
        r = self.rnd
        name, ret, pre, rec = r.choice(only or self.dfuncs)
        a = self.arrs[0][0] if self.arrs else None
        b = self.bits[0][0] if self.bits else None
        args = [self.int_expr(1)]
        if rec:
            args = [I(r.randrange(0, 3))] + args
        c = call(name, *args, V(self.arr_for_call), V(self.bits_for_call))
        if ret == 'int':
            k = r.randrange(8)
            if k == 0:
                return [write(c), write(C(' '))]
            if k == 1:
                return [if_(bin_(r.choice(('>', '<', '==')), c, I(r.randrange(0, 4))), block(self.marker()))]
            if k == 2:
                return [ex(call('!truth_is_defeat', bin_('==', c, I(r.randrange(0, 6)))))]
            if k == 3:
                return [decl('int', self.name('e'), c), self.marker()]
            if k == 4 and self.ret_type == 'int' and self.feat('exits_from_try'):
                return [if_(self.bool_expr(1), block(('ret', c)))]
            if self.ints and r.random() < 0.8:
                return [setv(r.choice(self.ints), c)]
        return [ex(c)]

    def preempt_block(self, exits):
        """preempt { ... } whose body changes state (and may exit)."""
        self.preempt_budget -= 1
        r = self.rnd
        body = [self.marker()] if r.random() < 0.5 else []
        for _ in range(r.randrange(1, 3)):
            body += self.plain()
        if exits and r.random() < 0.3:
            body.append(r.choice(exits)())
        elif self.feat('nihilism') and r.random() < 0.08:
            body.append(ex(call('!is_defeat')))
        return [preempt(*body)]

    def exit_makers(self):
        ms = []
        if self.feat('exits_from_try'):
            if self.in_loop:
                ms += [lambda: ('break',), lambda: ('cont',)]
            ms.append(self.return_stmt)
        return ms

    def return_stmt(self):
        if self.ret_type == 'empty':
            return ret()
        if self.ret_type == 'bool':
            return ret(self.bool_expr(1))
        return ret(self.int_expr(1))

    def defeat_context_stmts(self, n, depth, exits):
        """Statements for a try body or a defeat function body."""
        r = self.rnd
        out = []
        for _ in range(n):
            c = r.randrange(12)
            if c < 3:
                out += self.plain()
            elif c < 6 and self.feat('preempt') and self.preempt_budget > 0:
                out += self.preempt_block(exits)
            elif c < 8:
                out += self.defeat_stmt()
            elif c == 8 and depth > 0:
                out.append(if_(self.bool_expr(1),
                               block(*self.defeat_context_stmts(r.randrange(1, 3), depth - 1, exits)),
                               block(*self.defeat_context_stmts(r.randrange(1, 2), depth - 1, exits))
                               if r.random() < 0.5 else None))
            elif (c == 9 or (c == 10 and self.feat('doomed'))) and depth > 0 and self.feat('loops_in_try') \
                    and (self.preempt_budget >= 2 or self.feat('doomed')):
                k = r.randrange(1, 4)
                i = self.name('i')
                save_budget = self.preempt_budget
                self.preempt_budget = max(1, self.preempt_budget // k)
                self.ro_ints.append(i)
                was = self.in_loop
                self.in_loop = True
                inner_exits = [lambda: ('break',), lambda: ('cont',)] if self.feat('exits_from_try') else []
                body = self.defeat_context_stmts(r.randrange(1, 3), depth - 1, inner_exits)
                if inner_exits and r.random() < 0.6:
                    # a plain conditional continue / break inside the loop, then more work
                    pos = r.randrange(len(body) + 1)
                    body[pos:pos] = [if_(self.bool_expr(1), block(self.marker(), r.choice(inner_exits)()))]
                    body += self.defeat_stmt() if r.random() < 0.5 else self.plain()
                self.in_loop = was
                self.ro_ints.remove(i)
                used = (self.preempt_budget_used(body)) * k
                self.preempt_budget = max(0, save_budget - used)
                if r.random() < 0.25:
                    # the loop's continuation clause is a defeat call; the body advances the counter
                    out.append(('for', decl('int', i, I(0)), bin_('<', V(i), I(k)),
                                ex(call('!truth_is_defeat', bin_('>', V(i), I(r.randrange(0, 4))))),
                                block(aug('+', i, I(1)), *body)))
                else:
                    out.append(for_up(i, I(0), I(k), *body))
            elif c == 10:
                out.append(self.marker())
            else:
                out += self.defeat_stmt()
        return out

    @staticmethod
    def preempt_budget_used(stmts):
        from .lang import walk
        return sum(1 for s in stmts for n in walk(s) if n and n[0] == 'preempt')

    # ------------------------------------------------------------------- tries
    def try_block(self, depth=1):
        r = self.rnd
        kinds = [k for k in ('undo', 'stop') if self.feat(k)]
        if getattr(self, 'kinds_override', None):
            kinds = self.kinds_override
        kind = r.choice(kinds)
        self.preempt_budget = self.cfg['max_preempts']
        exits = self.exit_makers()
        body = [self.marker()]
        body += self.defeat_context_stmts(r.randrange(1, 5), depth, exits)
        c = r.random()
        if self.feat('doomed'):
            c *= 0.45
        if c < 0.35:
            body.append(ex(call('!is_defeat')))
        elif c < 0.5 and exits:
            body.append(r.choice(exits)())
        elif c < 0.55 and self.feat('terminal_calls'):
            body.append(ex(call(r.choice(('all_is_win', 'all_is_broken')))))
        elif c < 0.6 and self.feat('diverge'):
            body.append(while_(B(True)))
            body.append(ex(call('!is_defeat')))
        else:
            body.append(self.marker())
        handler = [self.marker()]
        for _ in range(r.randrange(0, 3)):
            handler += self.plain()
        if self.feat('handler_try') and depth > 0 and r.random() < 0.25:
            handler += self.try_block(depth - 1)
        if exits and r.random() < 0.15:
            handler.append(r.choice(exits)())
        return [try_(block(*body), kind, block(*handler))]

    def canary(self):
        return [try_(block(ex(call('!canary')), write(S('!BAD!'))), 'undo', block(write(C('c'))))]

    def spec_stmt(self):
        r = self.rnd
        left = call(r.choice(('o1', 'o2')), self.int_expr(1))
        right = self.int_expr(1) if r.random() < 0.6 else call('o1', self.int_expr(0))
        if r.random() < 0.5 and self.ints:
            # make equality likely: o1(x) returns x * 2 + 1
            v = self.int_expr(0)
            left = call('o1', v)
            right = bin_('+', bin_('*', v, I(2)), I(r.choice((1, 1, 0))))
        c = r.random()
        if c < 0.2:
            # a compile-time constant on the left: the right side must still be evaluated
            k = r.choice((0, 1, 3, 7))
            left = I(k)
            right = call(r.choice(('o1', 'o2')), I(r.choice((k, (k - 1) // 2 if k % 2 else k, 1, 3))))
        elif c < 0.28:
            left = bin_('+', I(r.choice((1, 2))), I(r.choice((1, 2))))
            right = call('o1', self.int_expr(0))
        e = ('spec', left, right)
        c2 = r.random()
        if c2 < 0.3:
            # the value of ?? wanted in another register than the usual one: as the left / right operand
            # of arithmetic or a comparison, as a returned value, as an array length
            k = r.randrange(5)
            if k == 0:
                return [write(bin_(r.choice('+-*'), e, I(r.randrange(1, 4)))), write(C(' ')), write(V('g0')), write(C(' '))]
            if k == 1:
                return [write(bin_(r.choice('+-'), self.int_expr(0), e)), write(C(' ')), write(V('g0')), write(C(' '))]
            if k == 2:
                return [if_(bin_(r.choice(('>', '==', '<=')), e, self.int_expr(0)), block(self.marker()), block(write(C('~')))),
                        write(V('g0')), write(C(' '))]
            if k == 3:
                return [write(call('@sp', left[2][0] if left[0] == 'call' and left[1] == 'o1' else self.int_expr(0), right)),
                        write(C(' ')), write(V('g0')), write(C(' '))]
            n = self.name('t')
            return [dyn('int', n, bin_('+', bin_('%', e, I(3)), I(1))), write(ln(n)), write(C(' ')), write(V('g0')), write(C(' '))]
        if self.arrs and r.random() < 0.3:
            a, ln_ = r.choice(self.arrs)
            tgt = idx(a, I(r.randrange(ln_)))
            st = aug(r.choice('+-'), tgt, e) if r.random() < 0.4 else setv(tgt, e)
            return [st, ex(call('dump', V(a))), write(V('g0')), write(C(' '))]
        if self.ints and r.random() < 0.6:
            return [setv(r.choice(self.ints), e), write(V('g0')), write(C(' '))]
        return [write(e), write(C(' ')), write(V('g0')), write(C(' '))]

    def segment(self):
        r = self.rnd
        c = r.randrange(10)
        out = []
        if c < 5:
            if self.feat('loops_around_try') and r.random() < 0.4:
                k = r.randrange(1, 4)
                i = self.name('i')
                self.ro_ints.append(i)
                was = self.in_loop
                self.in_loop = True
                inner = []
                if r.random() < 0.5:
                    inner += self.plain()
                inner += self.try_block()
                if r.random() < 0.5:
                    inner += self.dump()
                self.in_loop = was
                self.ro_ints.remove(i)
                out.append(for_up(i, I(0), I(k), *inner))
            else:
                out += self.try_block()
            out += self.dump()
            if self.feat('canary') and r.random() < 0.6:
                out += self.canary()
        elif c < 7 and self.feat('spec'):
            out += self.spec_stmt()
        elif c == 7 and self.yfuncs and self.feat('you_helpers'):
            name, rt = r.choice(self.yfuncs)
            cl = call(name, self.int_expr(1), V(self.arr_for_call), V(self.bits_for_call))
            if rt == 'int' and self.ints:
                out += [setv(r.choice(self.ints), cl)]
            elif rt == 'bool':
                out += [write(cl)]
            else:
                out += [ex(cl)]
            out += self.dump()
        else:
            out += self.plain()
        return out

    # --------------------------------------------------------------- functions
    def std_params(self, rec=False):
        ps = ([('int', 'dep')] if rec else []) + [('int', 'pa'), (arr('int'), 'par'), (arr('bool'), 'pbi')]
        return ps

    def enter_func(self, rec=False):
        self.ints = []
        self.ro_ints = ['pa'] + (['dep'] if rec else [])
        self.arrs = [('par', 3)]
        self.bits = [('pbi', 4)]
        self.arr_for_call = 'par'
        self.bits_for_call = 'pbi'
        self.in_loop = False

    def gen_defeat_func(self, k):
        r = self.rnd
        rec = self.feat('recursion') and r.random() < 0.35
        pre = self.feat('preemptive_funcs') and r.random() < 0.5
        rt = r.choice(('empty', 'int'))
        name = f'!d{k}'
        self.enter_func(rec)
        self.ret_type = rt
        loc = self.name('t')
        self.ints = []
        body = [decl('int', loc, self.int_expr(0)), self.marker()]
        self.ints = [loc]
        self.preempt_budget = 2 if pre else 0
        save = self.cfg.get('preempt')
        self.cfg['preempt'] = pre
        callable_d = list(self.dfuncs)
        stmts = self.defeat_context_stmts(r.randrange(1, 4), 1, [self.return_stmt] if self.feat('exits_from_try') else [])
        self.cfg['preempt'] = save
        body += stmts
        if rec:
            body.append(if_(bin_('>', V('dep'), I(0)),
                            block(ex(call(name, bin_('-', V('dep'), I(1)), self.int_expr(0), V('par'), V('pbi'))))
                            if rt == 'empty' else
                            block(setv(loc, call(name, bin_('-', V('dep'), I(1)), self.int_expr(0), V('par'), V('pbi'))))))
        if r.random() < 0.3:
            body += self.defeat_stmt()
        if rt == 'int':
            body.append(ret(self.int_expr(1)))
        elif r.random() < 0.3:
            body.append(ret())
        self.funcs.append(func(rt, name, self.std_params(rec), *body))
        self.dfuncs.append((name, rt, pre, rec))

    def gen_you_helper(self, k):
        r = self.rnd
        rt = r.choice(('empty', 'int', 'bool'))
        name = f'@y{k}'
        self.enter_func()
        self.ret_type = rt
        loc = self.name('u')
        self.ints = []
        body = [decl('int', loc, self.int_expr(0)), self.marker()]
        self.ints = [loc]
        # which handler kinds a function uses is decided per function: whole-program facts such as
        # "the first try/stop is compiled after this defeat function" need functions that differ
        self.kinds_override = r.choice((None, None, ['stop'], ['undo']))
        for _ in range(r.randrange(1, 3)):
            body += self.segment()
        self.kinds_override = None
        if rt != 'empty':
            body.append(self.return_stmt())
        self.funcs.append(func(rt, name, self.std_params(), *body))
        self.yfuncs.append((name, rt))

    def build(self):
        r = self.rnd
        std = [
            func('int', 'o1', [('int', 'a')], write(C('(')), write(V('a')), write(C(')')),
                 ret(bin_('+', bin_('*', V('a'), I(2)), I(1)))),
            func('int', 'o2', [('int', 'a')], aug('+', 'g0', I(1)), write(C('#')),
                 ret(bin_('-', V('a'), V('g0')))),
            func('int', 'o3', [('int', 'a')],
                 ret(bin_('+', bin_('/', V('a'), I(2)), bin_('%', bin_('*', V('a'), I(3)), I(5))))),
            dump_func('int'), dump_func('bool'),
            func('int', '@sp', [('int', 'a'), ('int', 'b')], ret(('spec', call('o1', V('a')), V('b')))),
        ]
        if self.feat('canary'):
            std.append(func('empty', '!canary', [], ex(call('!is_defeat'))))
        if self.feat('defeat_funcs'):
            for k in range(1, 2 if self.cfg.get('tiny') else r.randrange(2, 5)):
                self.gen_defeat_func(k)
        if self.feat('you_helpers'):
            for k in range(1, r.randrange(1, 3)):
                self.gen_you_helper(k)
        # entry point
        self.ints = ['x0', 'x1', 'x2']
        self.ro_ints = ['q0', 'q1']
        self.arrs = [('ar', 3)]
        self.bits = [('bi', 4)]
        self.arr_for_call = 'ar'
        self.bits_for_call = 'bi'
        self.in_loop = False
        self.ret_type = 'empty'
        body = [decl('int', 'x0', V('q0')), decl('int', 'x1', V('q1')), decl('int', 'x2', I(r.randrange(0, 4))),
                decl(arr('int'), 'ar', ('arr', (V('q0'), I(r.randrange(5)), V('q1'))), True),
                decl(arr('bool'), 'bi', ('arr', tuple(B(r.random() < 0.5) for _ in range(4))), True)]
        self.kinds_override = r.choice((None, None, None, ['undo'], ['stop']))
        for _ in range(self.cfg['n_segments']):
            body += self.segment()
        self.kinds_override = None
        body += self.dump()
        if self.feat('canary'):
            body += self.canary()
        body.append(write(S('END')))
        self.funcs.append(func('empty', '@is_you', [('int', 'q0'), ('int', 'q1')], *body))
        argv = [str(r.randrange(-3, 6)), str(r.randrange(-3, 6))]
        return prog([decl('int', 'g0', I(0))], std + self.funcs), argv


def rare_shape_program(rnd):
    """Small programs in which defeat is used in exactly one unusual place, so that
    whole-program conditions (no try/stop anywhere, no statement-level defeat call,
    no preempt ...) can hold.  -> (prog, argv)"""
    shape = rnd.randrange(11)
    k = rnd.randrange(1, 4)
    if shape >= 9:
        # a value-returning you-function whose try body returns / declares / branches on the value of a
        # defeat function: the only defeat of the body is inside the very expression that leaves it
        kind = 'stop' if shape == 9 else rnd.choice(('undo', 'stop'))
        risky = func('int', '!risky', [('int', 'x')], write(C('r')), ex(call('!truth_is_defeat', bin_('>', V('x'), I(2)))),
                     ret(bin_('+', V('x'), I(1))))
        form = rnd.randrange(3)
        if form == 0:
            tb = [write(C('t')), ret(call('!risky', V('x')))]
        elif form == 1:
            tb = [decl('int', 'v', call('!risky', V('x'))), write(C('t')), ret(bin_('*', V('v'), I(2)))]
        else:
            tb = [if_(bin_('>', call('!risky', V('x')), I(1)), block(write(C('t')), ret(I(7)))), write(C('n'))]
        get = func('int', '@get', [('int', 'x')], try_(block(*tb), kind, block(write(C('s')), ret(bin_('-', I(0), I(1))))),
                   write(C('f')), ret(I(5)))
        main = func('empty', '@is_you', [('int', 'q')], write(call('@get', V('q'))), write(C(';')),
                    write(call('@get', bin_('+', V('q'), I(3)))), write(C(';')), write(call('@get', I(0))))
        fs = [risky, get, main]
        rnd.shuffle(fs)
        return prog([], fs), [str(rnd.randrange(0, 5))]
    if shape >= 7:
        # code-generation order: the defeat function is first reached from a try/undo (or from a
        # you-function without any try/stop) and only later called under a try/stop elsewhere
        first_kind, second_kind = ('undo', 'stop') if shape == 7 else ('stop', 'undo')
        chk = func('empty', '!check', [('int', 'x')], write(C('c')), ex(call('!truth_is_defeat', bin_('>', V('x'), I(2)))))
        second = func('empty', '@second', [('int', 'x')],
                      try_(block(write(C('s')), ex(call('!check', V('x'))), write(C('k'))), second_kind,
                           block(write(C('h')))), write(C('e')))
        main = func('empty', '@is_you', [('int', 'q')],
                    try_(block(ex(call('!check', bin_('-', V('q'), I(rnd.choice((0, 10)))))), write(C('a'))),
                         first_kind, block(write(C('u')))),
                    ex(call('@second', V('q'))), ex(call('@second', bin_('-', V('q'), I(3)))), write(C('z')))
        fs = [chk, second, main]
        rnd.shuffle(fs)
        return prog([], fs), [str(rnd.randrange(0, 7))]
    cond = bin_('>=', V('i'), V('lim'))
    if shape == 0:      # defeat only in the continuation clause of a for loop
        body = [('for', decl('int', 'i', I(0)), bin_('<', V('i'), I(k + 2)),
                 ex(call('!truth_is_defeat', cond)), block(write(V('i')), aug('+', 'i', I(1))))]
    elif shape == 1:    # defeat only inside a preempt block
        body = [decl('int', 'i', I(0)), preempt(write(C('p')), ex(call('!truth_is_defeat', bin_('>', V('lim'), I(1))))),
                write(V('i'))]
    elif shape == 2:    # defeat only in an else branch
        body = [decl('int', 'i', V('lim')), if_(bin_('<', V('i'), I(2)), block(write(C('s'))),
                                                 block(ex(call('!is_defeat'))))]
    elif shape == 3:    # defeat only through a nested call in an expression
        body = [decl('int', 'i', call('!inner', V('lim'))), write(V('i'))]
    elif shape == 4:    # a defeat function that never defeats
        body = [decl('int', 'i', bin_('*', V('lim'), I(2))), write(V('i'))]
    elif shape == 5:    # defeat in a while condition's operand
        body = [decl('int', 'i', I(0)),
                while_(bin_('<', V('i'), call('!inner', V('lim'))), aug('+', 'i', I(1)), write(V('i')))]
    else:               # defeat behind a conditional return
        body = [decl('int', 'i', V('lim')), if_(bin_('==', V('i'), I(1)), block(ret())), ex(call('!is_defeat'))]
    fs = []
    if shape in (3, 5):
        fs.append(func('int', '!inner', [('int', 'a')],
                       ex(call('!truth_is_defeat', bin_('>', V('a'), I(2)))), ret(bin_('+', V('a'), I(1)))))
    fs.append(func('empty', '!only', [('int', 'lim')], *body))
    kind = rnd.choice(('undo', 'undo', 'stop'))
    main = func('empty', '@is_you', [('int', 'q')],
                write(C('a')),
                try_(block(write(C('t')), ex(call('!only', V('q'))), write(C('k'))), kind, block(write(C('h')))),
                write(C('z')))
    return prog([], fs + [main]), [str(rnd.randrange(0, 5))]


def gen_tt_program(rnd, cfg):
    if cfg.get('rare_shapes', True) and rnd.random() < 0.05:
        return rare_shape_program(rnd)
    return TTGen(rnd, cfg).build()
