"""hidsim - deterministic simulation of compiled Halt is Defeat programs.

See /verif/DESIGN.md.  Nothing in this package is part of hidc; hidc is
imported from /repo's working tree by hidsim.hidc_api.
"""
