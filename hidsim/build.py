"""Small constructors for hand-built AST templates (see hidsim.lang)."""
from .lang import arr  # noqa: F401


def I(v):
    return ('int', v)


def C(v):
    return ('chr', v if isinstance(v, int) else ord(v))


def B(v):
    return ('bool', bool(v))


def S(b):
    if isinstance(b, str):
        b = b.encode('utf-8')
    return ('str', b.decode('latin-1'))


def V(n):
    return ('var', n)


def call(name, *args):
    return ('call', name, tuple(args))


def ex(e):
    return ('expr', e)


def write(e):
    return ex(call('write', e))


def writeln(e=None):
    return ex(call('writeln', e)) if e is not None else ex(call('writeln'))


def decl(t, n, init, const=False):
    return ('decl', t, n, init, const)


def dyn(el, n, length):
    return ('dyn', el, n, length)


def setv(target, e):
    return ('set', target if isinstance(target, tuple) else V(target), e)


def aug(op, target, e):
    return ('aug', op, target if isinstance(target, tuple) else V(target), e)


def block(*stmts):
    out = []
    for s in stmts:
        if isinstance(s, list):
            out.extend(s)
        else:
            out.append(s)
    return ('block', tuple(out))


def if_(c, then, els=None):
    return ('if', c, then if then[0] == 'block' else block(then),
            None if els is None else (els if els[0] == 'block' else block(els)))


def for_up(i, lo, hi, *body):
    return ('for', decl('int', i, lo), ('bin', '<', V(i), hi), aug('+', i, I(1)), block(*body))


def while_(c, *body):
    return ('while', c, block(*body))


def bin_(op, l, r):
    return ('bin', op, l, r)


def idx(src, i):
    return ('idx', src if isinstance(src, tuple) else V(src), i)


def ln(src):
    return ('len', src if isinstance(src, tuple) else V(src))


def is_(e, t):
    return ('is', e, t)


def ret(e=None):
    return ('ret', e)


def func(retype, name, params, *body):
    return ('func', retype, name, tuple(params), block(*body))


def prog(globals_, funcs):
    return ('prog', tuple(globals_), tuple(funcs))


def try_(body, kind, handler):
    return ('try', body, kind, handler)


def preempt(*body):
    return ('preempt', block(*body))


def dump_func(el):
    """empty dump(const el[] a): prints [x,y,...]."""
    item = idx('a', V('i'))
    if el == 'byte':
        item = is_(item, 'int')
    return func('empty', 'dump', [(arr(el, True), 'a')],
                write(C('[')),
                for_up('i', I(0), ln('a'),
                       if_(bin_('!=', V('i'), I(0)), block(write(C(',')))),
                       write(item)),
                write(C(']')))
