"""Program-level fault planting (DESIGN 2.4): guarded faulting operations
placed at seeded positions inside in-flight work, with the input that
triggers them and the nearest inputs that do not."""
from .build import *   # noqa: F401,F403
from .lang import arr, walk

KINDS = ('div', 'mod', 'div_aug', 'mod_aug', 'idx_read', 'idx_write', 'idx_aug', 'str_idx', 'bad_len')


def _block_paths(node, path=()):
    if isinstance(node, tuple):
        if node and node[0] == 'block':
            yield path
        for i, x in enumerate(node):
            if isinstance(x, tuple):
                yield from _block_paths(x, path + (i,))


def _get(node, path):
    for i in path:
        node = node[i]
    return node


def _set(node, path, new):
    if not path:
        return new
    i = path[0]
    return node[:i] + (_set(node[i], path[1:], new),) + node[i + 1:]


def _inside_try_or_terminal(prog, path):
    """Do not plant inside try bodies / handlers when the caller wants a
    sequential program; also tells whether the position is inside a loop."""
    node = prog
    tags = []
    for i in path:
        if isinstance(node, tuple) and node and isinstance(node[0], str):
            tags.append(node[0])
        node = node[i]
    return tags


def fault_stmts(rnd, kind, W, trigger):
    """-> (statements to plant, value for the trigger global, expected flag).
    trigger=True plants the faulting input, False its nearest harmless one."""
    maxs = (1 << (8 * W - 1)) - 1
    el = rnd.choice(('int', 'byte', 'bool'))
    L = rnd.choice((1, 2, 3, 5, 8, 9)) if el != 'bool' else rnd.choice((1, 7, 8, 9, 17))
    if kind in ('div', 'mod', 'div_aug', 'mod_aug'):
        harmless = rnd.choice((1, -1, 2))
        val = 0 if trigger else harmless
        op = '/' if kind.startswith('div') else '%'
        left = rnd.choice((I(7), I(-9), C(200), I(maxs), I(-maxs - 1)))
        if kind in ('div', 'mod'):
            stmts = [write(bin_(op, left, V('fz'))), write(C('~'))]
        else:
            t = rnd.choice(('int', 'byte'))
            stmts = [block(decl(t, 'ft', I(77)), aug(op, 'ft', V('fz') if t == 'int' else is_(V('fz'), 'byte')),
                           write(is_(V('ft'), 'int')), write(C('~')))]
            h2 = rnd.choice((1, 2, 255))
            if t == 'byte' and not trigger:
                val = h2
        return stmts, val, 'division_by_zero'
    if kind == 'bad_len':
        if el == 'int':
            bad = rnd.choice((-1, -maxs - 1, maxs, maxs // W + 1))
        elif el == 'byte':
            bad = rnd.choice((-1, -maxs - 1, -2))
        else:
            bad = rnd.choice((-1, -7, -8, -9, -maxs - 1))
        harmless = rnd.choice((0, 1, 2))
        val = bad if trigger else harmless
        pre = []
        if rnd.random() < 0.5:
            # an array literal declared earlier in the same block
            pre = [decl(arr('int'), 'fl', ('arr', (V('fz'), I(2), I(3), I(4))), True), write(idx('fl', I(1)))]
        stmts = [block(*pre, dyn(el, 'fa', V('fz')), write(ln('fa')), write(C('~')))]
        return stmts, val, 'stack_overflow'
    if kind == 'str_idx':
        text = ''.join(chr(rnd.randrange(32, 127)) for _ in range(L))
        bad = rnd.choice((L, -1, maxs, -maxs - 1, L + 1))
        harmless = rnd.choice((0, L - 1))
        val = bad if trigger else harmless
        src = S(text.encode()) if rnd.random() < 0.5 else None
        if src is None:
            stmts = [block(decl('string', 'fs', S(text.encode())), write(is_(idx('fs', V('fz')), 'int')), write(C('~')))]
        else:
            stmts = [write(is_(idx(src, V('fz')), 'int')), write(C('~'))]
        return stmts, val, 'out_of_bounds'
    # array index faults
    bad = rnd.choice((L, -1, maxs, -maxs - 1, L + 1, 8 * L if el == 'bool' else L + 7))
    harmless = rnd.choice((0, L - 1))
    val = bad if trigger else harmless
    storage = rnd.choice(('literal', 'dynamic', 'alias', 'const'))
    if kind != 'idx_read' and storage == 'const':
        storage = 'literal'
    lit = {'int': lambda i: I(i * 3 + 1), 'byte': lambda i: I((i * 41 + 7) & 0xFF),
           'bool': lambda i: B(i % 3 == 0)}[el]
    pre = []
    if storage == 'dynamic':
        pre = [dyn(el, 'fa', I(L)),
               for_up('fi', I(0), ln('fa'), setv(idx('fa', V('fi')), lit(0)))]
    elif storage == 'alias':
        pre = [decl(arr(el), 'fb', ('arr', tuple(lit(i) for i in range(L))), True),
               decl(arr(el), 'fa', V('fb'), True)]
    else:
        pre = [decl(arr(el, storage == 'const'), 'fa', ('arr', tuple(lit(i) for i in range(L))), True)]
    item = idx('fa', V('fz'))
    shown = write(is_(item, 'int') if el == 'byte' else item)
    if kind == 'idx_read':
        body = [shown]
    elif kind == 'idx_write':
        body = [setv(item, lit(1)), shown]
    else:
        if el == 'bool':
            body = [setv(item, ('un', 'not', item)), shown]
        else:
            body = [aug(rnd.choice('+-*'), item, I(3)), shown]
    return [block(*pre, *body, write(C('~')))], val, 'out_of_bounds'


def plant(rnd, prog, kind, W, trigger=True, sequential_only=True):
    """Insert a fault at a seeded statement position.  Adds a non-const global
    `fz` holding the trigger value.  -> (prog, info) or (None, None)."""
    paths = []
    for p in _block_paths(prog):
        tags = _inside_try_or_terminal(prog, p)
        if 'func' not in tags:
            continue
        paths.append((p, tags))
    if not paths:
        return None, None
    # prefer deep positions (inside loops / callees)
    path, tags = rnd.choice(paths)
    blk = _get(prog, path)
    stmts, val, flag = fault_stmts(rnd, kind, W, trigger)
    # never plant after an exit statement (it would be unreachable)
    n = len(blk[1])
    limit = n
    for i, s in enumerate(blk[1]):
        if s[0] in ('ret', 'break', 'cont'):
            limit = i
            break
    pos = rnd.randrange(limit + 1)
    new_blk = ('block', blk[1][:pos] + tuple(stmts) + blk[1][pos:])
    prog2 = _set(prog, path, new_blk)
    prog2 = ('prog', prog2[1] + (decl('int', 'fz', I(val)),), prog2[2])
    info = {'kind': kind, 'flag': flag, 'trigger': trigger, 'value': val,
            'in_loop': any(t in ('for', 'while') for t in tags),
            'in_callee': not any(isinstance(x, tuple) and len(x) > 2 and x[2] == '@is_you'
                                 for x in [_get(prog, path[:2])] if path[:2]),
            'in_try': 'try' in tags}
    return prog2, info
