"""Independent front end: HiD source text -> hidsim.lang tree.

Used only to feed *hand-written* programs (README examples, the upstream
code-generation tests, demonstrations of seeded changes) to the reference
interpreter, so that the reference model itself can be calibrated against
outputs the author of hidc asserted.  Written from the README grammar
summary; shares no code with hidc.  It accepts well-formed programs only and
raises ParseError otherwise (it is not an oracle for C06/C07/C11/C12).
"""
import re

from .lang import arr


class ParseError(Exception):
    pass


KEYWORDS = {'int', 'byte', 'bool', 'string', 'empty', 'const', 'if', 'else', 'while', 'for', 'try', 'undo',
            'stop', 'preempt', 'return', 'break', 'continue', 'and', 'or', 'not', 'is', 'true', 'false'}
TOKEN = re.compile(r'''
    (?P<ws>\s+|//[^\n]*)
  | (?P<str>"(?:\\.|[^"\\\n])*")
  | (?P<chr>'(?:\\u\{[0-9a-fA-F]+\}|\\x[0-9a-fA-F]{2}|\\.|[^'\\\n])')
  | (?P<num>0x[0-9a-fA-F_]+|0o[0-7_]+|0b[01_]+|\d[\d_]*)
  | (?P<id>[@!]?[A-Za-z_]\w*)
  | (?P<sym>\?\?|==|!=|<=|>=|\+=|-=|\*=|/=|%=|[-+*/%<>=(){}\[\];,.])
''', re.X)
ESC = {'a': 7, 'b': 8, 'f': 12, 'n': 10, 'r': 13, 't': 9, '0': 0, "'": 39, '"': 34, '\\': 92}


def decode(body):
    """Body of a string/char literal -> bytes."""
    out = bytearray()
    i = 0
    while i < len(body):
        c = body[i]
        if c != '\\':
            out += c.encode('utf-8')
            i += 1
            continue
        n = body[i + 1]
        if n == 'x':
            out.append(int(body[i + 2:i + 4], 16))
            i += 4
        elif n == 'u':
            j = body.index('}', i)
            out += chr(int(body[i + 3:j], 16)).encode('utf-8')
            i = j + 1
        elif n in ESC:
            out.append(ESC[n])
            i += 2
        else:
            raise ParseError(f'bad escape \\{n}')
    return bytes(out)


def tokenize(text):
    toks = []
    pos = 0
    while pos < len(text):
        m = TOKEN.match(text, pos)
        if not m:
            raise ParseError(f'cannot tokenize at {text[pos:pos + 20]!r}')
        pos = m.end()
        k = m.lastgroup
        v = m.group()
        if k == 'ws':
            continue
        if k == 'num':
            v = v.replace('_', '')
            base = {'0x': 16, '0o': 8, '0b': 2}.get(v[:2], 10)
            toks.append(('num', int(v[2:] if base != 10 else v, base)))
        elif k == 'str':
            toks.append(('str', decode(v[1:-1])))
        elif k == 'chr':
            b = decode(v[1:-1])
            if len(b) != 1:
                raise ParseError('character literal is not one byte')
            toks.append(('chr', b[0]))
        elif k == 'id':
            toks.append(('kw', v) if v in KEYWORDS else ('id', v))
        else:
            toks.append(('sym', v))
    toks.append(('eof', None))
    return toks


class P:
    def __init__(self, toks):
        self.t = toks
        self.i = 0

    def peek(self, k=0):
        return self.t[min(self.i + k, len(self.t) - 1)]

    def at(self, kind, val=None):
        t = self.peek()
        return t[0] == kind and (val is None or t[1] == val)

    def take(self, kind=None, val=None):
        t = self.peek()
        if kind is not None and (t[0] != kind or (val is not None and t[1] != val)):
            raise ParseError(f'expected {val or kind}, got {t}')
        self.i += 1
        return t

    def opt(self, kind, val):
        if self.at(kind, val):
            self.i += 1
            return True
        return False

    # ----------------------------------------------------------- program
    def program(self):
        gl, fs = [], []
        while not self.at('eof'):
            if self.opt('sym', ';'):
                continue
            if self.is_func():
                fs.append(self.func())
            else:
                gl.append(self.vdecl())
                self.take('sym', ';')
        return ('prog', tuple(gl), tuple(fs))

    def is_func(self):
        t0, t1, t2 = self.peek(), self.peek(1), self.peek(2)
        return t0[0] == 'kw' and t0[1] in ('int', 'byte', 'bool', 'string', 'empty') and t1[0] == 'id' and t2 == ('sym', '(')

    def func(self):
        ret = self.take('kw')[1]
        name = self.take('id')[1]
        self.take('sym', '(')
        params = []
        while not self.at('sym', ')'):
            const = self.opt('kw', 'const')
            t = self.take('kw')[1]
            if self.opt('sym', '['):
                self.take('sym', ']')
                t = arr(t, const)
            params.append((t, self.take('id')[1]))
            if not self.opt('sym', ','):
                break
        self.take('sym', ')')
        return ('func', ret, name, tuple(params), self.code_block())

    def vdecl(self):
        const = self.opt('kw', 'const')
        t = self.take('kw')[1]
        if self.opt('sym', '['):
            self.take('sym', ']')
            name = self.take('id')[1]
            self.take('sym', '=')
            return ('decl', arr(t, const), name, self.expr(), True)
        name = self.take('id')[1]
        if self.opt('sym', '['):
            n = self.expr()
            self.take('sym', ']')
            return ('dyn', t, name, n)
        self.take('sym', '=')
        return ('decl', t, name, self.expr(), const)

    # ------------------------------------------------------------ blocks
    def code_block(self):
        self.take('sym', '{')
        out = []
        while not self.at('sym', '}'):
            if self.opt('sym', ';'):
                continue
            out.append(self.statement())
        self.take('sym', '}')
        return ('block', tuple(out))

    def as_block(self):
        """A block statement following a control keyword (any block form)."""
        if self.at('sym', '{'):
            return self.code_block()
        return ('block', (self.block_stmt(),))

    def block_stmt(self):
        t = self.peek()
        if t == ('kw', 'if'):
            self.take()
            self.take('sym', '(')
            c = self.expr()
            self.take('sym', ')')
            then = self.as_block()
            els = None
            if self.opt('kw', 'else'):
                els = self.as_block()
            return ('if', c, then, els)
        if t == ('kw', 'while'):
            self.take()
            self.take('sym', '(')
            c = self.expr()
            self.take('sym', ')')
            return ('while', c, self.as_block())
        if t == ('kw', 'for'):
            self.take()
            self.take('sym', '(')
            init = None if self.at('sym', ';') else self.plain_stmt()
            self.take('sym', ';')
            cond = None if self.at('sym', ';') else self.expr()
            self.take('sym', ';')
            step = None if self.at('sym', ')') else self.plain_stmt()
            self.take('sym', ')')
            return ('for', init, cond, step, self.as_block())
        if t == ('kw', 'try'):
            self.take()
            body = self.as_block()
            kind = self.take('kw')[1]
            if kind not in ('undo', 'stop'):
                raise ParseError('expected undo or stop')
            return ('try', body, kind, self.as_block())
        if t == ('kw', 'preempt'):
            self.take()
            return ('preempt', self.as_block())
        if t == ('sym', '{'):
            return self.code_block()
        raise ParseError(f'expected a block, got {t}')

    def statement(self):
        t = self.peek()
        if t[0] == 'kw' and t[1] in ('if', 'while', 'for', 'try', 'preempt') or t == ('sym', '{'):
            return self.block_stmt()
        if t == ('kw', 'break'):
            self.take()
            self.take('sym', ';')
            return ('break',)
        if t == ('kw', 'continue'):
            self.take()
            self.take('sym', ';')
            return ('cont',)
        if t == ('kw', 'return'):
            self.take()
            e = None if self.at('sym', ';') else self.expr()
            self.take('sym', ';')
            return ('ret', e)
        s = self.plain_stmt()
        self.take('sym', ';')
        return s

    def plain_stmt(self):
        t = self.peek()
        if t[0] == 'kw' and t[1] in ('const', 'int', 'byte', 'bool', 'string'):
            return self.vdecl()
        e = self.expr()
        if self.opt('sym', '='):
            return ('set', e, self.expr())
        t = self.peek()
        if t[0] == 'sym' and t[1] in ('+=', '-=', '*=', '/=', '%='):
            self.take()
            return ('aug', t[1][0], e, self.expr())
        return ('expr', e)

    # -------------------------------------------------------- expressions
    def expr(self):
        left = self.binary(5)
        if self.opt('sym', '??'):
            return ('spec', left, self.binary(5))
        return left

    LEVELS = [('*', '/', '%'), ('+', '-'), ('==', '!=', '<', '<=', '>', '>='), ('and',), ('or',)]

    def binary(self, level):
        if level == 0:
            return self.cast()
        ops = self.LEVELS[level - 1]
        left = self.binary(level - 1)
        while True:
            t = self.peek()
            if t[0] in ('sym', 'kw') and t[1] in ops:
                self.take()
                left = ('bin', t[1], left, self.binary(level - 1))
            else:
                return left

    def cast(self):
        e = self.unary()
        if self.opt('kw', 'is'):
            t = self.take('kw')[1]
            if self.opt('sym', '['):
                self.take('sym', ']')
                t = arr(t, True)
            return ('is', e, t)
        return e

    def unary(self):
        t = self.peek()
        if t == ('sym', '+') or t == ('sym', '-') or t == ('kw', 'not'):
            self.take()
            return ('un', t[1], self.unary())
        return self.postfix()

    def postfix(self):
        e = self.atom()
        while True:
            if self.opt('sym', '.'):
                if self.take('id')[1] != 'length':
                    raise ParseError('expected .length')
                e = ('len', e)
            elif self.opt('sym', '['):
                i = self.expr()
                self.take('sym', ']')
                e = ('idx', e, i)
            else:
                return e

    def atom(self):
        t = self.take()
        if t == ('sym', '('):
            e = self.expr()
            self.take('sym', ')')
            return e
        if t[0] == 'num':
            return ('int', t[1])
        if t[0] == 'chr':
            return ('chr', t[1])
        if t[0] == 'str':
            return ('str', t[1].decode('latin-1'))
        if t == ('kw', 'true'):
            return ('bool', True)
        if t == ('kw', 'false'):
            return ('bool', False)
        if t == ('sym', '['):
            items = []
            while not self.at('sym', ']'):
                items.append(self.expr())
                if not self.opt('sym', ','):
                    break
            self.take('sym', ']')
            return ('arr', tuple(items))
        if t[0] == 'id':
            if self.opt('sym', '('):
                args = []
                while not self.at('sym', ')'):
                    args.append(self.expr())
                    if not self.opt('sym', ','):
                        break
                self.take('sym', ')')
                return ('call', t[1], tuple(args))
            return ('var', t[1])
        raise ParseError(f'unexpected {t}')


def parse(text):
    p = P(tokenize(text))
    return p.program()
