"""Case loop shared by every property check (DESIGN 2.5).

One integer (VERIF_SEED) decides every case: case i of property P draws from
random.Random(f"{seed}:{P}:{i}").  Workers are forked processes over case
indices; results are merged in index order, so the outcome does not depend on
worker count or scheduling.  Exit status: 0 held, 1 violation (with a
"VIOLATION property=<id> replay=<path>" line), 2 harness error.
"""
import argparse
import concurrent.futures as cf
import faulthandler
import importlib
import json
import multiprocessing as mp
import os
import random
import sys
import tempfile
import time
import traceback

ROOT = os.path.dirname(os.path.dirname(os.path.abspath(__file__)))
EVIDENCE_DIR = os.path.join(ROOT, 'evidence')
REPLAY_DIR = os.path.join(ROOT, 'replays')
KNOWN_FILE = os.path.join(ROOT, 'known_findings.json')

COMPONENTS = {
    'real': ['hidc lexer, parser, typechecker, code generator and hand-written library '
             'assembly, imported from /repo working tree'],
    'stub': ['Sphinx hardware/emulator: home-made SVM (assembler, machine, Turing-jump oracle '
             'with rollback and cycle detection), calibrated against upstream tests/test_codegen.py',
             'language semantics: independent reference interpreter written from the README'],
}


def case_rng(seed, prop, idx, salt=''):
    return random.Random(f'{seed}:{prop}:{idx}:{salt}')


def load_known():
    try:
        with open(KNOWN_FILE) as f:
            return json.load(f)
    except FileNotFoundError:
        return {'findings': []}


def match_known(known, prop, violation):
    """A violation is a known finding when a listed entry with status 'known'
    names the same property and its fingerprint equals the violation's."""
    fp = violation.get('fingerprint')
    for ent in known.get('findings', []):
        if ent.get('status') == 'known' and ent.get('fingerprint') == fp and fp:
            if prop in ent.get('properties', [ent.get('property')]):
                return ent
    return None


class CaseTimeout(BaseException):
    pass


def _alarm(signum, frame):
    raise CaseTimeout()


def _work(mod_name, seed, idxs, tier, opts):
    import signal
    faulthandler.enable()
    faulthandler.register(signal.SIGUSR1, all_threads=True)
    limit = opts.get('case_timeout', 300)
    faulthandler.dump_traceback_later(3 * limit * max(1, len(idxs)) + 60, exit=True)
    signal.signal(signal.SIGALRM, _alarm)
    mod = importlib.import_module(mod_name)
    if tier == 'thorough':
        from . import gen as _gen
        _gen.BIG = True
    out = []
    for idx in idxs:
        t0 = time.time()
        signal.setitimer(signal.ITIMER_REAL, limit)
        try:
            r = mod.case(seed, idx, tier)
        except CaseTimeout:
            # inconclusive, counted; never a verdict (and never silently a pass: see main)
            r = {'key': f'timeout-{idx}', 'timed_out': True, 'outcomes': {'case_timeout': 1}}
        except Exception:   # noqa: BLE001
            r = {'harness_error': traceback.format_exc()}
        finally:
            signal.setitimer(signal.ITIMER_REAL, 0)
        r['idx'] = idx
        r['t'] = time.time() - t0
        out.append(r)
    faulthandler.cancel_dump_traceback_later()
    return out


def write_replay(prop, seed, idx, violation):
    os.makedirs(REPLAY_DIR, exist_ok=True)
    path = os.path.join(REPLAY_DIR, f'{prop}-{seed}-{idx}-{violation.get("cls", "v")}.json')
    doc = {'property': prop, 'seed': seed, 'case': idx, 'class': violation.get('cls'),
           'fingerprint': violation.get('fingerprint'), 'detail': violation.get('detail'),
           'payload': violation.get('payload')}
    with open(path, 'w') as f:
        json.dump(doc, f, indent=1, sort_keys=True)
    return path


def merge_counts(dst, src):
    for k, v in src.items():
        if isinstance(v, (list, set, tuple)):
            dst.setdefault(k, set()).update(v)
        elif isinstance(v, dict):
            merge_counts(dst.setdefault(k, {}), v)
        elif isinstance(v, (int, float)) and not isinstance(v, bool):
            dst[k] = dst.get(k, 0) + v
        else:
            dst.setdefault(k, v)


def merge_max(dst, src):
    for k, v in src.items():
        if k not in dst or v > dst[k]:
            dst[k] = v


def main(mod_name, argv=None):
    mod = importlib.import_module(mod_name)
    ap = argparse.ArgumentParser(prog=f'check {mod.ID}')
    env_tier = os.environ.get('VERIF_TIER', 'quick')
    ap.add_argument('--tier', default=env_tier if env_tier in ('quick', 'thorough') else 'quick',
                    choices=('quick', 'thorough'))
    ap.add_argument('--replay')
    ap.add_argument('--cases', type=int)
    ap.add_argument('--wall', type=float)
    ap.add_argument('--workers', type=int, default=int(os.environ.get('VERIF_WORKERS', '0')) or None)
    ap.add_argument('--first', type=int, default=0, help='first case index')
    ap.add_argument('--digest', action='store_true', help='print per-case digests (determinism self-test)')
    args = ap.parse_args(argv)
    try:
        seed = int(os.environ.get('VERIF_SEED', '0') or 0)
    except ValueError:
        seed = int.from_bytes(os.environ['VERIF_SEED'].encode(), 'little') % (1 << 31)

    if args.replay:
        return do_replay(mod, args.replay)

    tier = mod.TIERS[args.tier]
    ncases = args.cases if args.cases is not None else tier['cases']
    wall = args.wall if args.wall is not None else tier['wall']
    workers = args.workers or min(16, os.cpu_count() or 1)
    chunk = tier.get('chunk', 4)
    t0 = time.time()
    known = load_known()

    idxs = list(range(args.first, args.first + ncases))
    chunks = [idxs[i:i + chunk] for i in range(0, len(idxs), chunk)]
    results = {}
    harness_errors = []
    opts = {'case_timeout': tier.get('case_timeout', 300)}
    ctx = mp.get_context('fork')
    stopped_early = False
    try:
        with cf.ProcessPoolExecutor(max_workers=workers, mp_context=ctx) as ex:
            pending = {}
            it = iter(chunks)
            # keep the queue short so that the wall budget can stop submission
            def submit():
                try:
                    c = next(it)
                except StopIteration:
                    return False
                pending[ex.submit(_work, mod_name, seed, c, args.tier, opts)] = c
                return True
            for _ in range(workers * 2):
                if not submit():
                    break
            while pending:
                done, _ = cf.wait(list(pending), return_when=cf.FIRST_COMPLETED)
                for fut in done:
                    c = pending.pop(fut)
                    try:
                        for r in fut.result():
                            results[r['idx']] = r
                    except Exception as e:   # noqa: BLE001  (worker died / watchdog)
                        harness_errors.append(f'worker failed on cases {c}: {e!r}')
                    if time.time() - t0 < wall:
                        submit()
                    else:
                        stopped_early = True
    except Exception:   # noqa: BLE001
        harness_errors.append(traceback.format_exc())

    # contiguous prefix of completed cases, in index order
    done_idxs = sorted(results)
    agg = {'counters': {}, 'max': {}, 'outcomes': {}, 'faults_fired': {}, 'probes': {}}
    keys_nontrivial = set()
    keys_all = set()
    samples = []
    violations = []
    known_hits = []
    digests = []
    for idx in done_idxs:
        r = results[idx]
        if 'harness_error' in r:
            harness_errors.append(f'case {idx}: {r["harness_error"]}')
            continue
        keys_all.add(r.get('key'))
        if r.get('nontrivial'):
            keys_nontrivial.add(r.get('key'))
        merge_counts(agg['counters'], r.get('counters', {}))
        merge_counts(agg['outcomes'], r.get('outcomes', {}))
        merge_counts(agg['faults_fired'], r.get('faults_fired', {}))
        merge_counts(agg['probes'], r.get('probes', {}))
        merge_max(agg['max'], r.get('max', {}))
        if r.get('sample') is not None and len(samples) < tier.get('samples', 3):
            samples.append(r['sample'])
        if args.digest:
            digests.append((idx, r.get('digest')))
        for v in r.get('violations', []):
            ent = match_known(known, mod.ID, v)
            if ent is not None:
                known_hits.append((ent, idx, v))
            else:
                violations.append((idx, v))

    for k in list(agg['counters']):
        if isinstance(agg['counters'][k], set):
            agg['counters']['distinct_' + k] = len(agg['counters'].pop(k))
    wall_s = time.time() - t0
    evaluations = len([i for i in done_idxs if 'harness_error' not in results[i]])
    cov = {
        'evaluations': evaluations,
        'distinct_nontrivial': len(keys_nontrivial),
        'distinct_cases': len(keys_all),
        'rule': mod.RULE,
        'samples': (samples or [{'note': 'none of the executed cases carried a sample (short or offset run)'}]) + [dict(v[1].get('sample', {}), violation=v[1].get('detail'))
                              for v in violations[:3]],
        'exhaustive': bool(getattr(mod, 'EXHAUSTIVE', {}).get(args.tier, False)),
        'cases_requested': ncases,
        'stopped_on_wall_budget': stopped_early,
        'runs_per_hour': round(agg['counters'].get('svm_runs', evaluations) / max(wall_s, 1e-9) * 3600),
        'seeds_per_hour': round(evaluations / max(wall_s, 1e-9) * 3600),
        'simulated': {
            'instructions_executed': agg['counters'].get('svm_steps', 0),
            'sleep_ms_committed': agg['counters'].get('sleep_ms', 0),
            'choice_points_opened': agg['counters'].get('choices', 0),
            'rollbacks': agg['counters'].get('rollbacks', 0),
            'halts_averted_by_lookahead': agg['counters'].get('peephole', 0),
        },
        'faults_fired': agg['faults_fired'],
        'reach': {
            'distinct_oracle_decision_traces': agg['counters'].get('distinct_traces', 0),
            'probes': agg['probes'],
            'max': agg['max'],
        },
        'outcomes': agg['outcomes'],
        'counters': agg['counters'],
        'components': dict(COMPONENTS, **getattr(mod, 'COMPONENTS', {})),
        'known_findings_seen': sorted({e[0]['id'] for e in known_hits}),
        'workers': workers,
    }
    if hasattr(mod, 'finalize'):
        mod.finalize(cov, agg)
    evidence = {
        'property_id': mod.ID, 'tier': args.tier, 'seed': seed, 'level': mod.LEVEL,
        'coverage': cov, 'assumptions': list(mod.ASSUMPTIONS), 'wall_s': round(wall_s, 2),
        'violations': len(violations),
    }
    evdir = EVIDENCE_DIR
    if os.environ.get('HID_REPO') or os.environ.get('VERIF_SELFTEST'):
        # runs against a scratch copy (mutation testing) or self-tests never touch the evidence of record
        evdir = os.path.join(tempfile.gettempdir(), 'hidsim-scratch-evidence')
    os.makedirs(evdir, exist_ok=True)
    with open(os.path.join(evdir, f'{mod.ID}.json'), 'w') as f:
        json.dump(evidence, f, indent=1, sort_keys=True, default=str)

    if args.digest:
        for idx, d in digests:
            print(f'DIGEST {idx} {d}')
    seen_known = set()
    for ent, idx, v in known_hits:
        if ent['id'] not in seen_known:
            seen_known.add(ent['id'])
            print(f'KNOWN-FINDING: property={mod.ID} {ent["id"]}: {ent["what"]} (e.g. case {idx})')
    print(f'{mod.ID} {args.tier}: {evaluations} cases, {len(keys_nontrivial)} distinct non-trivial, '
          f'{len(violations)} violations, {len(harness_errors)} harness errors, {wall_s:.1f}s')
    timeouts = agg['outcomes'].get('case_timeout', 0)
    if timeouts > max(5, evaluations // 10):
        harness_errors.append(f'{timeouts} of {evaluations} cases hit the per-case wall limit')
    if harness_errors:
        for h in harness_errors[:5]:
            print('HARNESS-ERROR', h, file=sys.stderr)
        return 2
    if violations:
        reported = set()
        for idx, v in violations:
            fp = (v.get('cls'), v.get('fingerprint'), (v.get('detail') or '')[:50])
            if fp in reported and len(violations) > 8:
                continue
            reported.add(fp)
            path = write_replay(mod.ID, seed, idx, v)
            print(f'  {v.get("cls")}: {v.get("detail")}')
            print(f'VIOLATION property={mod.ID} replay={path}')
        return 1
    return 0


def do_replay(mod, path):
    with open(path) as f:
        doc = json.load(f)
    known = load_known()
    try:
        vs = mod.replay(doc['payload'])
    except Exception:   # noqa: BLE001
        traceback.print_exc()
        return 2
    bad = 0
    for v in vs:
        ent = match_known(known, mod.ID, v)
        if ent is not None:
            print(f'KNOWN-FINDING: property={mod.ID} {ent["id"]}: {ent["what"]}')
            continue
        bad += 1
        print(f'  {v.get("cls")}: {v.get("detail")}')
        print(f'VIOLATION property={mod.ID} replay={path}')
    if not bad:
        print(f'{mod.ID} replay: no violation reproduced')
    return 1 if bad else 0
