"""Source-level reference interpreter for HiD (DESIGN 2.3, Appendix B).

Written from the README.  Operates on hidsim.lang trees; never sees hidc's
tokens, trees or types.  Time travel is modelled as choice points resolved by
depth-first backtracking, newest first; the interpreter is deterministic given
a decision vector and is re-executed from the start after every defeat.

run(prog, argv, W, checked=True) -> RefResult with .history (same event
alphabet as the SVM: ('o', byte) ('f', flag) ('s', ms)), .outcome in
WIN / ERROR / DIVERGE / DEFEAT / UNSPECIFIED / UNDEFINED / BUDGET.
"""
from .lang import (Typer, is_arr, arr, ARITH, COMPARE, EQUALITY, TypeErr,
                   contains_preempt)

WIN, ERROR, DIVERGE, DEFEAT = 'WIN', 'ERROR', 'DIVERGE', 'DEFEAT'
UNSPECIFIED, UNDEFINED, BUDGET = 'UNSPECIFIED', 'UNDEFINED', 'BUDGET'
FELLOFF = 'FELLOFF'


class _Halt(Exception):
    """Real defeat: this timeline never happened."""


class _DefeatUnwind(Exception):
    """Virtual defeat: unwinds to the stop handler."""


class _Terminal(Exception):
    def __init__(self, outcome, kind=None):
        self.outcome = outcome
        self.kind = kind


class _Return(Exception):
    def __init__(self, value):
        self.value = value


class _Break(Exception):
    pass


class _Continue(Exception):
    pass


class _Abort(Exception):
    def __init__(self, outcome, why):
        self.outcome = outcome
        self.why = why


class Undef:
    def __repr__(self):
        return 'UNDEF'


UNDEF = Undef()


class Arr:
    __slots__ = ('el', 'items', 'frozen')

    def __init__(self, el, items, frozen=False):
        self.el = el
        self.items = items
        self.frozen = frozen     # string viewed as const byte[]


class RefResult:
    def __init__(self):
        self.outcome = None
        self.error_kind = None
        self.history = []
        self.why = None
        self.reexecutions = 0
        self.choice_points = 0
        self.stats = {}

    def output(self):
        return bytes(e[1] for e in self.history if e[0] == 'o')

    def flags(self):
        return [e[1] for e in self.history if e[0] == 'f']


class Interp:
    def __init__(self, prog, argv, W, checked=True, max_nodes=400_000,
                 stack_bytes=None, max_total_nodes=2_000_000, uninit_zero=False):
        self.prog = prog
        self.argv = list(argv)
        self.W = W
        self.bits = 8 * W
        self.mask = (1 << self.bits) - 1
        self.signbit = 1 << (self.bits - 1)
        self.checked = checked
        self.typer = Typer(prog)
        self.max_nodes = max_nodes
        self.max_total_nodes = max_total_nodes
        # calibration only: fresh memory reads as zero (sat.hid and one upstream test rely on it)
        self.uninit_zero = uninit_zero
        self.total_nodes = 0
        self.stack_bytes = stack_bytes
        self.max_signed = self.signbit - 1
        self.decisions = []
        self.stats = {'try_undo': 0, 'try_stop': 0, 'preempt_choice': 0,
                      'preempt_forced': 0, 'spec': 0, 'prot_return': 0,
                      'stop_handler_depth_max': 0, 'undo_taken': 0,
                      'stop_taken': 0, 'preempt_run': 0, 'spec_equal': 0,
                      'calls': 0, 'max_call_depth': 0, 'faults_planted': 0,
                      'exit_from_try': 0, 'dyn_len0': 0}

    # ---------------------------------------------------------------- values
    def wrap(self, v):
        v &= self.mask
        return v - (1 << self.bits) if v & self.signbit else v

    def conv(self, v, ft, tt):
        """Implicit coercion of a value of static type ft to tt."""
        if ft == tt:
            return v
        if tt == 'byte' and ft == 'int':
            return v & 0xFF
        if tt == 'int' and ft == 'byte':
            return v
        if is_arr(tt):
            if ft == 'string':
                return Arr('byte', list(v), frozen=True)
            return v
        return v

    # ------------------------------------------------------------- execution
    def run_once(self):
        self.out = []
        self.dpos = 0
        self.nodes = 0
        self.virtual = False      # defeat is virtual (inside a doomed stop-try)
        self.depth = 0
        self.in_try_depth = None
        self.globals = {}
        self.gtypes = {}
        scopes = [self.gtypes]
        for g in self.prog[1]:
            self.exec_decl(g, [self.globals], scopes, is_global=True)
        entry = [f for f in self.prog[2] if f[2] == '@is_you']
        if len(entry) != 1:
            raise _Abort(UNDEFINED, 'no unique entry point')
        f = entry[0]
        args = self.bind_argv(f)
        self.call_user(f, args)
        self.out.append(('f', 'win'))
        raise _Terminal(WIN)

    def bind_argv(self, f):
        params = f[3]
        n_fixed = sum(1 for t, _ in params if not is_arr(t))
        has_arr = any(is_arr(t) for t, _ in params)
        if (not has_arr and len(self.argv) != n_fixed) or len(self.argv) < n_fixed:
            raise _Abort(UNDEFINED, 'argv does not fit the entry point')
        rest = len(self.argv) - n_fixed
        k = 0
        vals = []

        def scalar(t, s):
            if t == 'int':
                return self.wrap(int(s))
            if t == 'byte':
                return int(s) & 0xFF
            if t == 'string':
                return s.encode('utf-8')
            raise _Abort(UNDEFINED, 'bad entry parameter type')
        for t, _ in params:
            if is_arr(t):
                vals.append(Arr(t[1], [scalar(t[1], s) for s in self.argv[k:k + rest]]))
                k += rest
            else:
                vals.append(scalar(t, self.argv[k]))
                k += 1
        return vals

    def tick(self):
        self.nodes += 1
        self.total_nodes += 1
        if self.nodes > self.max_nodes or self.total_nodes > self.max_total_nodes:
            raise _Abort(BUDGET, 'reference interpreter node budget')

    def choose(self, kind):
        if self.dpos < len(self.decisions):
            d = self.decisions[self.dpos]
        else:
            self.decisions.append(False)
            d = False
            self.stats[kind] += 1
        self.dpos += 1
        return d

    def defeat(self):
        if self.virtual:
            self.defeat_depth = self.depth
            raise _DefeatUnwind()
        raise _Halt()

    def fault(self, kind):
        if not self.checked:
            raise _Abort(UNDEFINED, f'{kind} in an unchecked build')
        self.out.append(('f', kind))
        self.out.append(('f', 'error'))
        raise _Terminal(ERROR, kind)

    # ----------------------------------------------------------------- calls
    def call_user(self, f, args):
        self.stats['calls'] += 1
        self.depth += 1
        if self.depth > self.stats['max_call_depth']:
            self.stats['max_call_depth'] = self.depth
        if self.depth > 200:
            raise _Abort(BUDGET, 'recursion depth')
        frame = [dict(zip((n for _, n in f[3]), args))]
        types = [self.gtypes, {n: (t, False) for t, n in f[3]}]
        self.cur_func_stack.append(f)
        try:
            try:
                self.exec_block(f[4], frame, types, new_scope=False)
                ret = None
                if f[1] != 'empty':
                    raise _Abort(FELLOFF, f'control reached the end of {f[2]} without a return value')
            except _Return as r:
                ret = r.value
            self.protected_return(f)
            return ret
        finally:
            self.cur_func_stack.pop()
            self.depth -= 1

    def protected_return(self, f):
        # return boundary of a preemptive defeat function (checked build)
        if self.checked and f[2].startswith('!') and contains_preempt(f[4]):
            if self.choose('prot_return'):
                self.fault('nonlocal_preempt')

    def lookup(self, name, frame):
        for sc in reversed(frame):
            if name in sc:
                return sc
        if name in self.globals:
            return self.globals
        raise _Abort(UNDEFINED, f'unbound {name}')

    # ----------------------------------------------------------- expressions
    def ev(self, e, frame, types):
        self.tick()
        k = e[0]
        if k == 'int':
            return self.wrap(e[1])
        if k == 'chr':
            return e[1]
        if k == 'bool':
            return 1 if e[1] else 0
        if k == 'str':
            return e[1].encode('latin-1')
        if k == 'var':
            v = self.lookup(e[1], frame)[e[1]]
            if v is UNDEF:
                raise _Abort(UNSPECIFIED, 'read of uninitialised value')
            return v
        if k == 'bin':
            return self.ev_bin(e, frame, types)
        if k == 'un':
            op = e[1]
            if op == 'not':
                return 0 if self.truth(e[2], frame, types) else 1
            v = self.ev(e[2], frame, types)
            return self.wrap(-v) if op == '-' else v
        if k == 'is':
            return self.ev_cast(e, frame, types)
        if k == 'idx':
            src = self.ev(e[1], frame, types)
            i = self.ev(e[2], frame, types)
            items = src if isinstance(src, bytes) else src.items
            if not 0 <= i < len(items):
                self.fault('out_of_bounds')
            v = items[i]
            if v is UNDEF:
                el = 'byte' if isinstance(src, bytes) else src.el
                if el == 'string':
                    raise _Abort(UNDEFINED, 'use of uninitialised string element')
                raise _Abort(UNSPECIFIED, 'read of uninitialised element')
            return v
        if k == 'len':
            src = self.ev(e[1], frame, types)
            return len(src) if isinstance(src, bytes) else len(src.items)
        if k == 'call':
            return self.ev_call(e, frame, types)
        if k == 'arr':
            t = self.typer.typ(e, types)
            return self.make_array(e, t, frame, types)
        if k == 'spec':
            lt = self.typer.typ(e[1], types)
            rt = self.typer.typ(e[2], types)
            rv = self.conv(self.ev(e[2], frame, types), rt, lt)
            if self.choose('spec'):
                self.stats['spec_equal'] += 1
                return rv
            lv = self.ev(e[1], frame, types)
            if lv == rv:
                raise _Halt()
            return lv
        raise _Abort(UNDEFINED, f'unknown expression {k}')

    def make_array(self, lit, t, frame, types, explicit=False):
        """Array literal evaluated at element type t[1], left to right.  explicit: `[..] is T[]`
        casts every element (to bool: truthiness, a strict 0/1)."""
        el = t[1]
        items = []
        for x in lit[1]:
            tx = self.typer.typ(x, types)
            if explicit and el == 'bool' and tx != 'bool':
                items.append(1 if self.truth(x, frame, types) else 0)
            else:
                items.append(self.conv(self.ev(x, frame, types), tx, el))
        return Arr(el, items)

    def ev_as(self, e, t, frame, types):
        """Evaluate e in a context that wants static type t (declaration,
        argument, return, assignment)."""
        if e[0] == 'arr' and is_arr(t):
            self.tick()
            return self.make_array(e, t, frame, types)
        if e[0] == 'is' and is_arr(e[2]) and e[1][0] == 'arr':
            self.tick()
            return self.make_array(e[1], e[2], frame, types, explicit=True)
        te = self.typer.typ(e, types)
        return self.conv(self.ev(e, frame, types), te, t)

    def truth(self, e, frame, types):
        """Value of e cast to bool (logical operators cast their operands)."""
        t = self.typer.typ(e, types)
        v = self.ev(e, frame, types)
        if t == 'string':
            return len(v) != 0
        if is_arr(t):
            return len(v.items) != 0
        return v != 0

    def ev_bin(self, e, frame, types):
        op = e[1]
        if op == 'and':
            if not self.truth(e[2], frame, types):
                return 0
            return 1 if self.truth(e[3], frame, types) else 0
        if op == 'or':
            if self.truth(e[2], frame, types):
                return 1
            return 1 if self.truth(e[3], frame, types) else 0
        a = self.ev(e[2], frame, types)
        b = self.ev(e[3], frame, types)
        if op == '+':
            return self.wrap(a + b)
        if op == '-':
            return self.wrap(a - b)
        if op == '*':
            return self.wrap(a * b)
        if op == '/' or op == '%':
            if b == 0:
                self.fault('division_by_zero')
            return self.wrap(a // b if op == '/' else a % b)
        if op == '==':
            return 1 if a == b else 0
        if op == '!=':
            return 1 if a != b else 0
        if op == '<':
            return 1 if a < b else 0
        if op == '<=':
            return 1 if a <= b else 0
        if op == '>':
            return 1 if a > b else 0
        if op == '>=':
            return 1 if a >= b else 0
        raise _Abort(UNDEFINED, f'unknown operator {op}')

    def ev_cast(self, e, frame, types):
        t = e[2]
        inner = e[1]
        if is_arr(t):
            if inner[0] == 'arr':
                return self.make_array(inner, t, frame, types, explicit=True)
            ft = self.typer.typ(inner, types)
            return self.conv(self.ev(inner, frame, types), ft, arr(t[1], True))
        ft = self.typer.typ(inner, types)
        if t == 'bool':
            return 1 if self.truth(inner, frame, types) else 0
        v = self.ev(inner, frame, types)
        if t == 'byte':
            return v & 0xFF
        if t == 'int':
            return v
        raise _Abort(UNDEFINED, f'cast to {t}')

    def ev_call(self, e, frame, types):
        name = e[1]
        ptypes, ret, decl = self.typer.resolve(name, e[2], types)
        args = [self.ev_as(a, pt, frame, types) for a, pt in zip(e[2], ptypes)]
        if decl is not None:
            return self.call_user(decl, args)
        if name in ('write', 'writeln'):
            if ptypes:
                self.write(args[0], ptypes[0])
            if name == 'writeln':
                self.out.append(('o', 10))
            return None
        if name == '!is_defeat':
            self.defeat()
        if name == '!truth_is_defeat':
            if args[0]:
                self.defeat()
            return None
        if name == 'all_is_win':
            self.out.append(('f', 'win'))
            raise _Terminal(WIN)
        if name == 'all_is_broken':
            self.out.append(('f', 'error'))
            raise _Terminal(ERROR, None)
        if name == 'sleep':
            self.out.append(('s', args[0] & self.mask))
            return None
        if name in ('debug', 'progress'):
            self.out.append(('f', name))
            return None
        raise _Abort(UNDEFINED, f'unknown builtin {name}')

    def write(self, v, t):
        if t == 'int':
            data = str(v).encode()
        elif t == 'byte':
            data = bytes([v])
        elif t == 'bool':
            data = b'true' if v else b'false'
        elif t == 'string':
            data = v
        else:
            if any(x is UNDEF for x in v.items):
                raise _Abort(UNSPECIFIED, 'write of uninitialised bytes')
            data = bytes(v.items)
        self.out.extend(('o', b) for b in data)

    # ------------------------------------------------------------ statements
    def exec_decl(self, s, frame, types, is_global=False):
        if s[0] == 'decl':
            _, t, name, init, const = s
            v = self.ev_as(init, t, frame, types)
            if is_arr(t) and isinstance(v, Arr) and v.el == 'empty':
                v = Arr(t[1], [])
            frame[-1][name] = v
            types[-1][name] = (t, const)
        else:
            _, el, name, lenexpr = s
            n = self.ev_as(lenexpr, 'int', frame, types)
            self.check_length(el, n, on_stack=not is_global)
            if n == 0:
                self.stats['dyn_len0'] += 1
            # uninitialised string elements are undefined behaviour wherever the array lives; numeric and
            # bool elements of a global array are emitted as zeros (`.zero`), those of a stack array are garbage
            frame[-1][name] = Arr(el, [0 if (el != 'string' and (is_global or self.uninit_zero)) else UNDEF] * n)
            types[-1][name] = (arr(el, False), True)

    def check_length(self, el, n, on_stack=True):
        size = n * self.W if el in ('int', 'string') else (n if el == 'byte' else (n + 7) >> 3)
        if n < 0:
            # a negative length is reported as stack_overflow (implementation
            # and upstream tests define the flag; the README lists the fault)
            self.fault('stack_overflow')
        if size > self.max_signed:
            self.fault('stack_overflow')
        if on_stack and self.stack_bytes is not None and size > self.stack_bytes:
            # (global arrays do not live on the stack)
            self.fault('stack_overflow')

    def assign(self, target, value_fn, frame, types):
        """target: ('var', n) | ('idx', src, i).  value_fn(old_fn) -> new."""
        if target[0] == 'var':
            sc = self.lookup(target[1], frame)
            t = self.typer.lookup(target[1], types)[0]
            sc[target[1]] = value_fn(lambda: self.ev(target, frame, types), t)
            return
        src = self.ev(target[1], frame, types)
        i = self.ev(target[2], frame, types)
        if not 0 <= i < len(src.items):
            self.fault('out_of_bounds')

        def old():
            v = src.items[i]
            if v is UNDEF:
                raise _Abort(UNSPECIFIED, 'read of uninitialised element')
            return v
        src.items[i] = value_fn(old, src.el)

    def exec_block(self, b, frame, types, new_scope=True):
        if new_scope:
            frame.append({})
            types.append({})
        try:
            for s in b[1]:
                self.exec_stmt(s, frame, types)
        finally:
            if new_scope:
                frame.pop()
                types.pop()

    def exec_stmt(self, s, frame, types):
        self.tick()
        k = s[0]
        if k in ('decl', 'dyn'):
            self.exec_decl(s, frame, types)
        elif k == 'set':
            self.assign(s[1], lambda old, t: self.ev_as(s[2], t, frame, types), frame, types)
        elif k == 'aug':
            op = s[1]

            def compute(old, t):
                a = old()
                te = self.typer.typ(s[3], types)
                b = self.ev(s[3], frame, types)
                if op in ('/', '%') and b == 0:
                    self.fault('division_by_zero')
                r = {'+': a + b, '-': a - b, '*': a * b,
                     '/': a // b if b else 0, '%': a % b if b else 0}[op]
                r = self.wrap(r)
                return r & 0xFF if t == 'byte' else r
            self.assign(s[2], compute, frame, types)
        elif k == 'expr':
            self.ev(s[1], frame, types)
        elif k == 'ret':
            f = self.cur_func_stack[-1]
            v = None if s[1] is None else self.ev_as(s[1], f[1], frame, types)
            if self.in_try_depth == self.depth:
                self.stats['exit_from_try'] += 1
            raise _Return(v)
        elif k == 'break':
            raise _Break()
        elif k == 'cont':
            raise _Continue()
        elif k == 'block':
            self.exec_block(s, frame, types)
        elif k == 'if':
            if self.truth(s[1], frame, types):
                self.exec_block(s[2], frame, types)
            elif s[3] is not None:
                self.exec_block(s[3], frame, types)
        elif k == 'while':
            self.exec_loop(None, s[1], None, s[2], frame, types)
        elif k == 'for':
            frame.append({})
            types.append({})
            try:
                if s[1] is not None:
                    self.exec_stmt(s[1], frame, types)
                self.exec_loop(None, s[2], s[3], s[4], frame, types)
            finally:
                frame.pop()
                types.pop()
        elif k == 'try':
            self.exec_try(s, frame, types)
        elif k == 'preempt':
            if self.virtual:
                self.stats['preempt_forced'] += 1
                run = True
            else:
                run = self.choose('preempt_choice')
            if run:
                self.stats['preempt_run'] += 1
                self.exec_block(s[1], frame, types)
        else:
            raise _Abort(UNDEFINED, f'unknown statement {k}')

    def snapshot(self, frame):
        def freeze(v):
            if isinstance(v, Arr):
                return (id(v), tuple(map(repr, v.items)))
            return repr(v)
        parts = [tuple(sorted((n, freeze(v)) for n, v in sc.items())) for sc in frame]
        parts.append(tuple(sorted((n, freeze(v)) for n, v in self.globals.items())))
        return (tuple(parts), len(self.out), self.virtual)

    def exec_loop(self, _init, cond, step, body, frame, types):
        seen = None
        const_true = cond is None or cond == ('bool', True)
        iters = 0
        while True:
            if const_true or iters > 2000:
                # a repeated store at the head of the same loop with no output
                # in between proves the loop runs forever
                snap = self.snapshot(frame)
                if seen is None:
                    seen = set()
                if snap in seen:
                    raise _Terminal(DIVERGE)
                seen.add(snap)
            iters += 1
            if cond is not None and not self.truth(cond, frame, types):
                break
            try:
                self.exec_block(body, frame, types)
            except _Break:
                break
            except _Continue:
                pass
            if step is not None:
                self.exec_stmt(step, frame, types)

    def exec_try(self, s, frame, types):
        _, body, kind, handler = s
        outer_frames = len(frame)
        if kind == 'undo':
            if self.choose('try_undo'):
                self.stats['undo_taken'] += 1
                self.exec_block(handler, frame, types)
                return
            self.in_try_depth = self.depth
            try:
                self.exec_block(body, frame, types)
            finally:
                self.in_try_depth = None
            return
        # try / stop
        if not self.choose('try_stop'):
            # defeat stays real inside the body
            self.in_try_depth = self.depth
            try:
                self.exec_block(body, frame, types)
            finally:
                self.in_try_depth = None
            return
        self.virtual = True
        self.in_try_depth = self.depth
        depth_at_entry = self.depth
        nfunc = len(self.cur_func_stack)
        try:
            self.exec_block(body, frame, types)
        except _DefeatUnwind:
            # frame and array stack as they were at try entry (inner scopes
            # were popped while the defeat unwound through them)
            assert len(frame) == outer_frames
            d = self.defeat_depth - depth_at_entry
            if d > self.stats['stop_handler_depth_max']:
                self.stats['stop_handler_depth_max'] = d
            self.depth = depth_at_entry
            del self.cur_func_stack[nfunc:]
            self.virtual = False
            self.in_try_depth = None
            self.stats['stop_taken'] += 1
            self.exec_block(handler, frame, types)
            return
        finally:
            self.virtual = False
            self.in_try_depth = None
        # the body completed although this is the "doomed" alternative: that
        # cannot happen for a deterministic program (the first attempt would
        # have completed too); treat as model failure
        raise _Abort(UNDEFINED, 'stop alternative completed without defeat')

    # ----------------------------------------------------------------- driver
    def run(self):
        res = RefResult()
        while True:
            self.cur_func_stack = []
            try:
                self.run_once()
            except _Terminal as t:
                res.outcome = t.outcome
                res.error_kind = t.kind
                break
            except _Halt:
                res.reexecutions += 1
                if res.reexecutions > 5000:
                    res.outcome = BUDGET
                    res.why = 'too many re-executions'
                    break
                while self.decisions and self.decisions[-1]:
                    self.decisions.pop()
                if not self.decisions:
                    res.outcome = DEFEAT
                    break
                self.decisions[-1] = True
                continue
            except _Abort as a:
                res.outcome = a.outcome
                res.why = a.why
                break
            except _DefeatUnwind:
                res.outcome = UNDEFINED
                res.why = 'virtual defeat escaped its try'
                break
            except (_Return, _Break, _Continue):
                res.outcome = UNDEFINED
                res.why = 'control flow escaped'
                break
            except TypeErr as e:
                res.outcome = UNDEFINED
                res.why = f'reference typer: {e}'
                break
            except RecursionError:
                res.outcome = BUDGET
                res.why = 'python recursion'
                break
        res.history = list(self.out)
        res.choice_points = len(self.decisions)
        res.stats = dict(self.stats)
        res.decisions = list(self.decisions)
        return res


def run(prog, argv=(), W=2, checked=True, **kw):
    return Interp(prog, argv, W, checked, **kw).run()
