"""C01 - compiled code computes what the source program says (sequential core)."""
from .. import gen, lang
from ..harness import case_rng
from ..runner import digest, REF_OK
from . import common, assignmatrix
from .common import evaluate, history_problem

ID = 'C01'
LEVEL = 'exploration'
TIERS = {
    'quick': {'cases': 576 + 204 + 1400, 'wall': 85, 'chunk': 10},
    'thorough': {'cases': 576 + 204 + 40000, 'wall': 1200, 'chunk': 20},
}
RULE = ('cases 0..575: the ELEMENT-STORE MATRIX (seed independent): element type x storage class {literal, stack literal, '
        'dynamic, global literal, global dynamic, parameter} x length {1,8,9,17} x right-hand side {literal, variable} x '
        'index {literal, variable, expression}; every second element and the last two are stored to, some compound-'
        'assigned, then all are read back. Cases 576..779: the ASSIGNMENT MATRIX - `v = E(v)`, `v += E(v)`, `int y = E(v)` and `f(E(v))` for a global, '
        'local and parameter variable, E reading v directly, through a function that looks at the global, inside array '
        'literals, under .length, indexing, casts and unary minus (a variable used as its own scratch register shows). '
        'Further cases: Random(f"{seed}:C01:{i}") picks a swarm configuration (feature subset, sizes, word '
        'size in {2,3,4,8}) and generates a well-typed HiD program without try/preempt/?? plus an '
        'argument vector; the program is rendered with a seeded layout, compiled by the real hidc, '
        'run on the SVM (generous stack; for every 3rd case also at the measured minimal stack; '
        'every 4th case with poisoned free stack) and its committed history is compared event by '
        'event with the reference interpreter. distinct = hash of (source, argv, configuration); '
        'non-trivial = reference run wins, prints at least one byte and the SVM executed >= 100 '
        'instructions.')
ASSUMPTIONS = [
    'SVM semantics as calibrated (DESIGN Appendix A): floor div/mod, code addressed by instruction index, '
    'revisited (pc,state) means never halts',
    'reference interpreter is my reading of the README (DESIGN Appendix B)',
    'the generator stays inside the documented typing and context rules with margin; constant '
    'sub-expressions whose exact value leaves the word are not generated here (C14 owns them)',
]
VIOLATION_CLASSES = ('history', 'rejected-valid-program', 'internal-error', 'asm-error', 'halt',
                     'machine-fault', 'mem', 'scope', 'ctrl')


def problems_of(prog, argv, cfgs):
    out = []
    evs = []
    for c in cfgs:
        ev = evaluate(prog, argv, **c)
        ps = list(ev.problems)
        h = history_problem(ev)
        if h:
            ps.append(h)
        out.extend((cls, d, ev) for cls, d in ps if cls in VIOLATION_CLASSES)
        evs.append(ev)
    return out, evs


# ---- element-store matrix (seed independent): every element type x storage class x length x index form x
# right-hand-side form; every second element (and the last two) is stored to, some are compound-assigned, then
# everything is read back - special-cased lowerings (constant index, literal value, bit masks beyond the first byte)
# show up as a wrong or clobbered neighbour
EL_JOBS = [(el, st, L, rhs, ix) for el in ('int', 'byte', 'bool', 'string')
           for st in ('literal', 'stack_literal', 'dynamic', 'gliteral', 'gdynamic', 'param')
           for L in (1, 8, 9, 17) for rhs in ('lit', 'var') for ix in ('lit', 'var', 'expr')]


def el_value(el, k, alt=False):
    from ..build import I, C, B, S
    if el == 'int':
        return I(1000 + 7 * k + (500 if alt else 0))
    if el == 'byte':
        return C(chr((65 + k + (32 if alt else 0)) % 256))
    if el == 'bool':
        return B((k % 3 == 0) != alt)
    return S(f's{k}' + ('x' if alt else ''))


def el_prog(job):
    from ..build import (I, V, call, ex, write, decl, dyn, setv, aug, for_up, bin_, idx as ix_, ln, func, prog as mkprog,
                         dump_func)
    from ..lang import arr
    el, st, L, rhs, ixf = job
    init = ('arr', tuple(el_value(el, k) for k in range(L)))
    glob, pre = [], []
    name = 'a'
    if st == 'literal':
        pre.append(decl(arr(el), 'a', init, True))
    elif st == 'stack_literal':
        # one run-time element keeps the literal on the stack
        items = list(init[1])
        items[L // 2] = {'int': bin_('+', V('q'), I(1000 + 7 * (L // 2) - 3)), 'byte': ('is', bin_('+', V('q'), I(62 + L // 2)), 'byte'),
                         'bool': bin_('==', V('q'), I(3 if (L // 2) % 3 == 0 else 4)), 'string': V('qs')}[el]
        if el == 'string':
            pre.append(decl('string', 'qs', el_value(el, L // 2)))
        pre.append(decl(arr(el), 'a', ('arr', tuple(items)), True))
    elif st == 'dynamic':
        pre += [dyn(el, 'a', bin_('+', V('q'), I(L - 3))), for_up('i', I(0), ln('a'), setv(ix_('a', V('i')), el_value(el, 0)))]
    elif st == 'gliteral':
        glob.append(decl(arr(el), 'a', init, True))
    elif st == 'gdynamic':
        glob.append(dyn(el, 'a', I(L)))
        pre.append(for_up('i', I(0), ln('a'), setv(ix_('a', V('i')), el_value(el, 0))))
    else:
        pre.append(decl(arr(el), 'a0', init, True))
    stores = []
    for k in range(L):
        if not (k % 2 == 0 or k >= L - 2):
            continue
        v = el_value(el, k, alt=True)
        if rhs == 'var':
            stores.append(decl(el, f'v{k}', v))
            v = V(f'v{k}')
        if ixf == 'lit':
            i_e = I(k)
        elif ixf == 'var':
            stores.append(decl('int', f'k{k}', I(k)))
            i_e = V(f'k{k}')
        else:
            i_e = bin_('-', bin_('+', V('q'), I(k)), I(3))
        stores.append(setv(ix_('a', i_e), v))
        if el in ('int', 'byte') and k % 3 == 0:
            stores.append(aug('+', ix_('a', i_e), I(2) if rhs == 'lit' else V('two')))
    if rhs == 'var':
        stores.insert(0, decl('byte' if el == 'byte' else 'int', 'two', I(2)))
    tail = [ex(call('dump', V('a')))]
    fs = [dump_func(el)]
    if st == 'param':
        fs.append(func('empty', 'touch', [(arr(el), 'a'), ('int', 'q')], *stores, *tail))
        body = pre + [ex(call('touch', V('a0'), V('q'))), ex(call('dump', V('a0')))]
    else:
        body = pre + stores + tail
    return mkprog(glob, fs + [func('empty', '@is_you', [('int', 'q')], *body)]), ['3']


def el_case(idx):
    job = EL_JOBS[idx]
    p, argv = el_prog(job)
    W = (2, 3, 4, 8)[idx % 4]
    base = dict(W=W, stack=common.GENEROUS, style_seed=None, poison_seed=idx + 1)
    found, evs = problems_of(p, argv, [base])
    ev = evs[0]
    res = {'key': digest('el', *map(str, job)), 'nontrivial': ev.res is not None, 'violations': [],
           'counters': common.run_counters(ev), 'outcomes': {}, 'faults_fired': {'poison': 1},
           'probes': dict(ev.res.probes) if ev.res is not None else {}, 'max': {}}
    res['counters']['element_matrix'] = 1
    if idx == 0:
        res['sample'] = dict(common.sample_of(p, argv, ev, 900), job=f'element-store matrix {job}')
    res['outcomes'][f'ref:{ev.ref.outcome}'] = 1
    res['digest'] = digest(res['key'], ev.res.history if ev.res is not None else None, [f[:2] for f in found])
    if found:
        cls, detail, bad = found[0]
        res['violations'].append({'cls': cls, 'detail': f'element matrix {job}: {detail}', 'fingerprint': None,
                                  'payload': common.payload(p, argv, bad, {'element_job': list(job)}),
                                  'sample': common.sample_of(p, argv, bad)})
    return res


AS_JOBS = assignmatrix.jobs(False)


def as_case(k):
    job = AS_JOBS[k]
    p, argv = assignmatrix.program(job, False)
    W = (2, 3, 4, 8)[k % 4]
    base = dict(W=W, stack=common.GENEROUS, style_seed=None, poison_seed=None)
    found, evs = problems_of(p, argv, [base])
    ev = evs[0]
    res = {'key': digest('as', *map(str, job)), 'nontrivial': ev.res is not None, 'violations': [],
           'counters': common.run_counters(ev), 'outcomes': {}, 'faults_fired': {},
           'probes': dict(ev.res.probes) if ev.res is not None else {}, 'max': {}}
    res['counters']['assignment_matrix'] = 1
    if k == 0:
        res['sample'] = dict(common.sample_of(p, argv, ev, 900), job=f'assignment matrix {job}')
    res['outcomes'][f'ref:{ev.ref.outcome}'] = 1
    res['digest'] = digest(res['key'], ev.res.history if ev.res is not None else None, [f[:2] for f in found])
    if found:
        cls, detail, bad = found[0]
        res['violations'].append({'cls': cls, 'detail': f'assignment matrix {job}: {detail}', 'fingerprint': None,
                                  'payload': common.payload(p, argv, bad, {'assign_job': list(job)}),
                                  'sample': common.sample_of(p, argv, bad)})
    return res


def case(seed, idx, tier):
    if idx < len(EL_JOBS):
        return el_case(idx)
    idx -= len(EL_JOBS)
    if idx < len(AS_JOBS):
        return as_case(idx)
    idx -= len(AS_JOBS)
    rnd = case_rng(seed, ID, idx)
    cfg = gen.swarm_cfg(rnd)
    prog, argv = gen.gen_program(rnd, cfg)
    W = cfg['W']
    style = rnd.randrange(1 << 30)
    poison = rnd.randrange(1 << 30) if idx % 4 == 0 else None
    base = dict(W=W, stack=common.GENEROUS, style_seed=style, poison_seed=poison)
    found, evs = problems_of(prog, argv, [base])
    ev = evs[0]
    res = {'key': digest(ev.src, argv, W), 'nontrivial': False, 'violations': [],
           'counters': common.run_counters(ev), 'outcomes': {}, 'faults_fired': {},
           'probes': dict(ev.res.probes) if ev.res is not None else {}, 'max': {}}
    res['outcomes'][f'ref:{ev.ref.outcome}'] = 1
    if ev.res is not None:
        res['outcomes'][f'svm:{ev.res.outcome}'] = 1
        res['nontrivial'] = bool(ev.ref.outcome == 'WIN' and ev.res.steps >= 100 and ev.ref.output())
        res['counters']['traces'] = [ev.res.trace_hash]
        res['max']['svm_steps'] = ev.res.steps
        res['max']['call_depth'] = ev.mon.result_counts['max_call_depth']
        if poison is not None:
            res['faults_fired']['poison'] = 1
    res['counters']['features'] = {f: 1 for f in gen.FEATURES if cfg.get(f)}
    res['counters'][f'word_size_{W}'] = 1
    # second configuration: the smallest stack that completes
    if (not found and ev.res is not None and ev.res.outcome == 'WIN' and idx % 3 == 0
            and ev.res.steps < 150_000):
        n = common.min_stack(ev.src, argv, W, False)
        if n is not None:
            tight = dict(base, stack=n, poison_seed=rnd.randrange(1 << 30))
            f2, evs2 = problems_of(prog, argv, [tight])
            found.extend(f2)
            res['faults_fired']['stack_exact'] = 1
            res['max']['min_stack_words'] = n
            merge = common.run_counters(evs2[0])
            for k in ('svm_runs', 'svm_steps', 'choices', 'rollbacks', 'peephole'):
                res['counters'][k] = res['counters'].get(k, 0) + merge.get(k, 0)
    res['digest'] = digest(ev.src, argv, W, ev.res.history if ev.res is not None else None,
                           [p[:2] for p in found])
    if idx < 3:
        res['sample'] = common.sample_of(prog, argv, ev)
    if found:
        cls, detail, bad = found[0]
        cfgs = [bad.cfg]

        def runner(p, a):
            return [(c, d) for c, d, _ in problems_of(p, a, cfgs)[0]]
        mp, ma, tests = common.minimise(prog, argv, {cls}, runner, budget_s=20.0)
        f3, evs3 = problems_of(mp, ma, cfgs)
        if not any(c == cls for c, _, _ in f3):
            mp, ma, f3, evs3 = prog, argv, found, [bad]
        c3, d3, e3 = next((x for x in f3 if x[0] == cls))
        res['violations'].append({
            'cls': cls, 'detail': d3, 'fingerprint': None,
            'payload': common.payload(mp, ma, e3, {'original_src': bad.src, 'original_argv': list(argv),
                                                   'shrink_tests': tests}),
            'sample': common.sample_of(mp, ma, e3)})
    return res


def replay(payload):
    prog = lang.from_json(payload['prog'])
    argv = payload['argv']
    found, _ = problems_of(prog, argv, [payload['cfg']])
    return [{'cls': c, 'detail': d, 'fingerprint': None} for c, d, _ in found]
