"""C01 - compiled code computes what the source program says (sequential core)."""
from .. import gen, lang
from ..harness import case_rng
from ..runner import digest, REF_OK
from . import common
from .common import evaluate, history_problem

ID = 'C01'
LEVEL = 'exploration'
TIERS = {
    'quick': {'cases': 1400, 'wall': 75, 'chunk': 10},
    'thorough': {'cases': 40000, 'wall': 1200, 'chunk': 20},
}
RULE = ('case i: Random(f"{seed}:C01:{i}") picks a swarm configuration (feature subset, sizes, word '
        'size in {2,3,4,8}) and generates a well-typed HiD program without try/preempt/?? plus an '
        'argument vector; the program is rendered with a seeded layout, compiled by the real hidc, '
        'run on the SVM (generous stack; for every 3rd case also at the measured minimal stack; '
        'every 4th case with poisoned free stack) and its committed history is compared event by '
        'event with the reference interpreter. distinct = hash of (source, argv, configuration); '
        'non-trivial = reference run wins, prints at least one byte and the SVM executed >= 100 '
        'instructions.')
ASSUMPTIONS = [
    'SVM semantics as calibrated (DESIGN Appendix A): floor div/mod, code addressed by instruction index, '
    'revisited (pc,state) means never halts',
    'reference interpreter is my reading of the README (DESIGN Appendix B)',
    'the generator stays inside the documented typing and context rules with margin; constant '
    'sub-expressions whose exact value leaves the word are not generated here (C14 owns them)',
]
VIOLATION_CLASSES = ('history', 'rejected-valid-program', 'internal-error', 'asm-error', 'halt',
                     'machine-fault', 'mem', 'scope', 'ctrl')


def problems_of(prog, argv, cfgs):
    out = []
    evs = []
    for c in cfgs:
        ev = evaluate(prog, argv, **c)
        ps = list(ev.problems)
        h = history_problem(ev)
        if h:
            ps.append(h)
        out.extend((cls, d, ev) for cls, d in ps if cls in VIOLATION_CLASSES)
        evs.append(ev)
    return out, evs


def case(seed, idx, tier):
    rnd = case_rng(seed, ID, idx)
    cfg = gen.swarm_cfg(rnd)
    prog, argv = gen.gen_program(rnd, cfg)
    W = cfg['W']
    style = rnd.randrange(1 << 30)
    poison = rnd.randrange(1 << 30) if idx % 4 == 0 else None
    base = dict(W=W, stack=common.GENEROUS, style_seed=style, poison_seed=poison)
    found, evs = problems_of(prog, argv, [base])
    ev = evs[0]
    res = {'key': digest(ev.src, argv, W), 'nontrivial': False, 'violations': [],
           'counters': common.run_counters(ev), 'outcomes': {}, 'faults_fired': {},
           'probes': dict(ev.res.probes) if ev.res is not None else {}, 'max': {}}
    res['outcomes'][f'ref:{ev.ref.outcome}'] = 1
    if ev.res is not None:
        res['outcomes'][f'svm:{ev.res.outcome}'] = 1
        res['nontrivial'] = bool(ev.ref.outcome == 'WIN' and ev.res.steps >= 100 and ev.ref.output())
        res['counters']['traces'] = [ev.res.trace_hash]
        res['max']['svm_steps'] = ev.res.steps
        res['max']['call_depth'] = ev.mon.result_counts['max_call_depth']
        if poison is not None:
            res['faults_fired']['poison'] = 1
    res['counters']['features'] = {f: 1 for f in gen.FEATURES if cfg.get(f)}
    res['counters'][f'word_size_{W}'] = 1
    # second configuration: the smallest stack that completes
    if (not found and ev.res is not None and ev.res.outcome == 'WIN' and idx % 3 == 0
            and ev.res.steps < 150_000):
        n = common.min_stack(ev.src, argv, W, False)
        if n is not None:
            tight = dict(base, stack=n, poison_seed=rnd.randrange(1 << 30))
            f2, evs2 = problems_of(prog, argv, [tight])
            found.extend(f2)
            res['faults_fired']['stack_exact'] = 1
            res['max']['min_stack_words'] = n
            merge = common.run_counters(evs2[0])
            for k in ('svm_runs', 'svm_steps', 'choices', 'rollbacks', 'peephole'):
                res['counters'][k] = res['counters'].get(k, 0) + merge.get(k, 0)
    res['digest'] = digest(ev.src, argv, W, ev.res.history if ev.res is not None else None,
                           [p[:2] for p in found])
    if idx < 3:
        res['sample'] = common.sample_of(prog, argv, ev)
    if found:
        cls, detail, bad = found[0]
        cfgs = [bad.cfg]

        def runner(p, a):
            return [(c, d) for c, d, _ in problems_of(p, a, cfgs)[0]]
        mp, ma, tests = common.minimise(prog, argv, {cls}, runner, budget_s=20.0)
        f3, evs3 = problems_of(mp, ma, cfgs)
        if not any(c == cls for c, _, _ in f3):
            mp, ma, f3, evs3 = prog, argv, found, [bad]
        c3, d3, e3 = next((x for x in f3 if x[0] == cls))
        res['violations'].append({
            'cls': cls, 'detail': d3, 'fingerprint': None,
            'payload': common.payload(mp, ma, e3, {'original_src': bad.src, 'original_argv': list(argv),
                                                   'shrink_tests': tests}),
            'sample': common.sample_of(mp, ma, e3)})
    return res


def replay(payload):
    prog = lang.from_json(payload['prog'])
    argv = payload['argv']
    found, _ = problems_of(prog, argv, [payload['cfg']])
    return [{'cls': c, 'detail': d, 'fingerprint': None} for c, d, _ in found]
