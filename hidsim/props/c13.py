"""C13 - constant data reaches the output byte for byte."""
from ..build import *   # noqa: F401,F403
from ..harness import case_rng
from ..runner import digest
from . import common

ID = 'C13'
LEVEL = 'exploration'
SPECIAL = [0x00, 0x0a, 0x0d, 0x20, 0x22, 0x27, 0x3b, 0x5c, 0x7e, 0x7f, 0x80, 0xff]
N_SINGLE = 16
N_LEN = 41
TIERS = {
    'quick': {'cases': N_SINGLE + N_LEN + len(SPECIAL) * 3 + 4 + 120, 'wall': 100, 'chunk': 4},
    'thorough': {'cases': N_SINGLE + N_LEN + 512 + len(SPECIAL) + 4 + 4000, 'wall': 900, 'chunk': 8},
}
RULE = ('fixed jobs: each of the 256 byte values as a one-byte string, as a character literal (as an '
        'immediate and stored in a variable), and at the first/middle/last position of a longer string; '
        'ordered byte pairs (quick: every pair with one of 12 special bytes - NUL, LF, CR, space, both '
        'quotes, semicolon, backslash, ~, DEL, 0x80, 0xff - in either position; thorough: all 65536 '
        'pairs); constant int/byte/bool/string arrays of every length 0..40 as const global, mutable '
        'global, const local and mutable local; for each special byte, tables of 60 and 97 elements in which it sits '
        'at every / every even / every odd position (byte, int, string forms: wherever a long data line is broken, '
        'it is there); string literals of 32767 (the longest a 16-bit length can hold: must work) and 32768 / 40000 / '
        '65541 bytes (must be rejected). seeded jobs: random strings up to 64 bytes and random '
        'constant arrays, rendered with seeded literal spellings (raw, \\xHH, named escapes, \\u{..}, '
        'hex/octal/binary integers). Each program writes the constant, indexes every position and prints '
        '.length. oracle: the strict SVM assembler accepts the output; committed output equals the '
        'reference interpreter. distinct = hash(source, argv, W); non-trivial = won and printed constant data.')
ASSUMPTIONS = ['SVM assembler strictness (escapes \\\\ \\" \\\' \\n \\r \\t \\0 \\a \\b \\f \\xHH only) stands in for the real Sphinx assembler',
               'the pair sweep is exhaustive only in the thorough tier when all 256 pair jobs complete']
EXHAUSTIVE = {'quick': False, 'thorough': False}


def show_string(e, n):
    """write the string, every indexed position and its length."""
    out = [write(e), write(C('|'))]
    for i in range(n):
        out += [write(is_(idx(e, I(i)), 'int')), write(C(','))]
        if i % 2 == 0:
            out += [write(idx(e, I(i)))]          # the element itself: a byte, not a number
    out += [write(ln(e)), write(C('\n'))]
    return out


def single_prog(block_no):
    body = []
    for v in range(16 * block_no, 16 * block_no + 16):
        s = ('str', chr(v))
        body += show_string(s, 1)
        body += [write(('chr', v)), decl('byte', f'c{v}', ('chr', v)), write(is_(V(f'c{v}'), 'int')),
                 write(bin_('==', V(f'c{v}'), I(v)))]
        for t in (chr(v) + 'ab', 'a' + chr(v) + 'b', 'ab' + chr(v)):
            body += show_string(('str', t), 3)
    return prog([], [func('empty', '@is_you', [], *body)])


def pair_prog(fixed, first):
    body = []
    for v in range(256):
        t = (chr(fixed) + chr(v)) if first else (chr(v) + chr(fixed))
        body += [write(('str', t)), write(is_(idx(('str', t), I(1 if first else 0)), 'int')), write(ln(('str', t)))]
    return prog([], [func('empty', '@is_you', [], *body)])


def arr_values(rnd, el, n, W):
    maxs = (1 << (8 * W - 1)) - 1
    if el == 'int':
        return tuple(I(rnd.choice((0, 1, -1, maxs, -maxs - 1, rnd.randrange(-maxs - 1, maxs + 1)))) for _ in range(n))
    if el == 'byte':
        return tuple((C(rnd.randrange(256)) if rnd.random() < 0.5 else I(rnd.randrange(256))) for _ in range(n))
    if el == 'bool':
        return tuple(B(rnd.random() < 0.5) for _ in range(n))
    return tuple(('str', ''.join(chr(rnd.randrange(256)) for _ in range(rnd.randrange(0, 5)))) for _ in range(n))


def arrays_prog(rnd, n, W):
    glob, body, dumps = [], [], []
    k = 0
    for el in ('int', 'byte', 'bool', 'string'):
        dumps.append(dump_func(el))
        for storage in ('cg', 'mg', 'cl', 'ml'):
            k += 1
            name = f'{storage}{k}'
            const = storage[0] == 'c'
            d = decl(arr(el, const), name, ('arr', arr_values(rnd, el, n, W)), True)
            if storage[1] == 'g':
                glob.append(d)
            else:
                body.append(d)
            body += [ex(call('dump', V(name))), write(ln(name)), write(C('\n'))]
            if n:
                item = idx(name, I(n - 1))
                body += [write(is_(item, 'int') if el == 'byte' else item), write(C('\n'))]
    # equal-valued constant arrays of different element types must not share storage
    if n:
        small = [rnd.randrange(256) for _ in range(n)]
        same = [('int', tuple(I(v) for v in small)), ('byte', tuple(I(v) for v in small)),
                ('byte', tuple(C(v) for v in small))]
        bits = [bool(v & 1) for v in small[:8]]
        packed = sum(1 << i for i, b in enumerate(bits) if b)
        same += [('bool', tuple(B(b) for b in bits)), ('int', (I(packed),)), ('byte', (I(packed),))]
        rnd.shuffle(same)
        for el, vals in same:
            k += 1
            name = f'sm{k}'
            d = decl(arr(el, True), name, ('arr', vals), True)
            (glob if rnd.random() < 0.5 else body).append(d)
            body += [ex(call('dump', V(name))), write(ln(name)), write(C('\n'))]
    # constant bool arrays whose packed bytes are equal but whose lengths differ
    base = [rnd.random() < 0.5 for _ in range(rnd.randrange(1, 7))] + [True]
    for extra in (0, 1, 2 + rnd.randrange(0, max(1, 7 - len(base) % 8))):
        k += 1
        name = f'tb{k}'
        d = decl(arr('bool', True), name, ('arr', tuple(B(b) for b in base) + tuple(B(False) for _ in range(extra))), True)
        (glob if rnd.random() < 0.5 else body).append(d)
        body += [ex(call('dump', V(name))), write(ln(name)), write(C('\n'))]
    return prog(glob, dumps + [func('empty', '@is_you', [], *body)])


def runs_prog(b):
    """Long tables in which the special byte b sits at every position (and at every other position, in both
    phases): wherever the emitter breaks or wraps a long .byte/.word/.ascii line, b is there."""
    glob, body = [], []
    dumps = [dump_func('byte'), ('func', 'empty', 'dump', ((arr('int', True), 'a'),), dump_func('int')[4])]
    import random
    r = random.Random(1000 + b)      # fixed: the job is the same under every VERIF_SEED
    k = 0
    for n in (60, 97, 131):
        for pat in ('all', 'even', 'odd', 'mixed'):
            vals = [b if (pat == 'all' or (pat == 'mixed' and r.random() < 0.5) or (i % 2 == 0) == (pat == 'even'))
                    else r.choice((0x9c, 0x41, 7, 0x30)) for i in range(n)]
            for form in ('cgb', 'mlb', 'cgi', 'str'):
                if form == 'mlb' and not (pat == 'mixed' and n < 100):
                    continue        # (mutable locals live on the 400-word stack)
                k += 1
                name = f'{form}{k}'
                if form == 'str':
                    body += [write(('str', ''.join(chr(v) for v in vals))), write(C('\n'))]
                    continue
                el = 'int' if form == 'cgi' else 'byte'
                # irregular spelling widths (' ' / 32 / '\x9c'), so that no period lines up with a wrap width
                items = tuple((C(v) if (el == 'byte' and r.random() < 0.7) else I(v)) for i, v in enumerate(vals))
                d = decl(arr(el, form[0] == 'c'), name, ('arr', items), True)
                (glob if form[1] == 'g' else body).append(d)
                body += [ex(call('dump', V(name))), write(C('\n'))]
    return prog(glob, dumps + [func('empty', '@is_you', [], *body)])


LONGSTR = (32767, 32768, 40000, 65541)


def longstr_prog(n):
    text = ('0123456789abcdef' * (n // 16 + 1))[:n]
    body = [decl('string', 's', ('str', text)), write(ln('s')), write(C(' ')), write(idx('s', I(n - 1))), write(C(' ')),
            write(idx('s', I(1))), write(C(' ')), write(is_(V('s'), 'bool'))]
    return prog([], [func('empty', '@is_you', [], *body)])


def random_string_prog(rnd):
    body = []
    for _ in range(rnd.randrange(1, 6)):
        n = rnd.choice((0, 1, 2, 5, 17, 64, rnd.randrange(65)))
        pool = rnd.choice((bytes(range(256)), b'\\"\'\n\r;\x00\x7f\x80\xffab ', bytes(range(32, 127)), None))
        if pool is None:
            # well-formed non-ASCII text (2-, 3- and 4-byte characters), which the renderer often spells raw: what the
            # process-environment seam (locale encoding of the compiling process) needs in order to bite
            text = ''.join(rnd.choice('\u00e9\u00fc\u00df\u00f1\u03a9\u0436\u4e2d\u65e5\u20ac\u2603\U0001f389\U0001d11e a-z') for _ in range(n // 2 + 1))
            t = text.encode('utf-8').decode('latin-1')
            n = len(t)
        else:
            t = ''.join(chr(rnd.choice(pool)) for _ in range(n))
        body += show_string(('str', t), min(n, 8))
        if n:
            i = rnd.randrange(n)
            body += [write(is_(idx(('str', t), I(i)), 'int'))]
        if rnd.random() < 0.5:
            nm = f's{len(body)}'
            body += [decl('string', nm, ('str', t), rnd.random() < 0.5), write(V(nm)), write(ln(nm)),
                     write(is_(V(nm), arr('byte', True)))]
    return prog([], [func('empty', '@is_you', [], *body)])


def job(seed, idx, tier):
    rnd = case_rng(seed, ID, idx)
    W = rnd.choice((2, 2, 3, 4, 8))
    if idx < N_SINGLE:
        return f'single[{16 * idx},{16 * idx + 16})', single_prog(idx), W, rnd
    idx2 = idx - N_SINGLE
    if idx2 < N_LEN:
        return f'arrays len {idx2}', arrays_prog(rnd, idx2, W), W, rnd
    idx3 = idx2 - N_LEN
    npairs = len(SPECIAL) * 2 if tier == 'quick' else 512
    if idx3 < npairs:
        if tier == 'quick':
            fixed, first = SPECIAL[idx3 // 2], bool(idx3 % 2)
        else:
            fixed, first = idx3 // 2, bool(idx3 % 2)
        return f'pairs fixed={fixed} first={first}', pair_prog(fixed, first), W, rnd
    idx4 = idx3 - npairs
    if idx4 < len(SPECIAL):
        return f'runs byte={SPECIAL[idx4]:#x}', runs_prog(SPECIAL[idx4]), W, rnd
    idx5 = idx4 - len(SPECIAL)
    if idx5 < len(LONGSTR):
        # a string literal as long as / longer than the largest length a 16-bit word can hold
        return f'longstr {LONGSTR[idx5]}', longstr_prog(LONGSTR[idx5]), 2, rnd
    if rnd.random() < 0.3:
        return 'random arrays', arrays_prog(rnd, rnd.randrange(0, 12), W), W, rnd
    return 'random strings', random_string_prog(rnd), W, rnd


def case(seed, idx, tier):
    label, p, W, rnd = job(seed, idx, tier)
    res = common.new_result()
    if label.startswith('longstr') and int(label.split()[1]) > 32767:
        # no 16-bit length word can hold this length: the only right answer is a compile-time rejection
        from .. import render
        from ..runner import build
        src = render.program(p)
        b = build(src, W=2, stack=400)
        res['key'] = digest(label)
        res['nontrivial'] = True
        res['counters']['job_longstr'] = 1
        res['outcomes']['longstr:' + ('rejected' if b.error_kind == 'rejected' else 'accepted' if b.prog is not None else str(b.error_kind))] = 1
        res['digest'] = digest(label, b.error_kind)
        if b.error_kind != 'rejected':
            res['violations'].append({'cls': 'history' if b.prog is not None else 'internal-error',
                                      'detail': f'{label}: a string literal longer than the largest 16-bit length was '
                                                f'{"accepted (its length word cannot be right)" if b.prog is not None else "not diagnosed: " + str(b.error)}',
                                      'fingerprint': None, 'payload': {'longstr': int(label.split()[1])},
                                      'sample': {'source': src[:200] + ' ...'}})
        return res
    cfg = dict(W=W, stack=400, style_seed=(None if idx % 3 == 0 else rnd.randrange(1 << 30)), max_steps=4_000_000)
    found, ev = common.problems_of(p, [], cfg)
    common.add_counters(res, ev)
    res['key'] = digest(ev.src, W)
    res['nontrivial'] = bool(ev.res is not None and ev.res.outcome == 'WIN' and ev.ref.output())
    res['counters']['job_' + label.split()[0].split('[')[0]] = 1
    res['counters']['const_bytes_in_image'] = len(ev.built.prog.const) if ev.built.prog is not None else 0
    res['digest'] = digest(res['key'], ev.res.history if ev.res is not None else None, found)
    if idx in (0, N_SINGLE + 3, N_SINGLE + N_LEN + 14, N_SINGLE + N_LEN + 30):
        res['sample'] = dict(common.sample_of(p, [], ev, 600), job=label)
    if not found and ev.built.lines is not None:
        # constants must survive the way a real user's file reaches the compiler, too
        fired = {}
        fp = common.file_path_problem(ev.src, W, stack=400, stats=fired)
        res['counters']['file_path_compiles'] = 1
        for k, v in fired.items():
            res['faults_fired'][k] = res['faults_fired'].get(k, 0) + v
        if fp:
            res['violations'].append({'cls': fp[0], 'detail': fp[1], 'fingerprint': None,
                                      'payload': common.payload(p, [], ev, {'job': label, 'file_path': True}),
                                      'sample': common.sample_of(p, [], ev, 600)})
    if found:
        common.report(res, p, [], cfg, found, ev, extra={'job': label}, budget_s=10)
    return res


def finalize(cov, agg):
    c = agg['counters']
    cov['single_bytes_complete'] = c.get('job_single', 0) == N_SINGLE
    cov['array_lengths_complete'] = c.get('job_arrays', 0) >= N_LEN
    cov['pair_jobs'] = c.get('job_pairs', 0)


def replay(pl):
    if 'longstr' in pl:
        from .. import render
        from ..runner import build
        b = build(render.program(longstr_prog(pl['longstr'])), W=2, stack=400)
        return [] if b.error_kind == 'rejected' else [{'cls': 'history', 'detail': 'over-long string literal accepted', 'fingerprint': None}]
    out = common.generic_replay(pl)
    if pl.get('extra', {}).get('file_path') or not out:
        src = pl.get('src')
        if src is not None:
            fp = common.file_path_problem(src, pl['cfg']['W'], stack=400)
            if fp:
                out = list(out) + [{'cls': fp[0], 'detail': fp[1], 'fingerprint': None}]
    return out
