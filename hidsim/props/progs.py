"""Program sources shared by the cross-cutting checks (C03, C15, C18): one
seeded draw from the union of all generators."""
from .. import gen, gen_tt, faults


def draw(rnd, W=None, mix=(0.4, 0.35, 0.25)):
    """-> (prog, argv, W, kind).  mix = (time travel, sequential, planted fault twin)."""
    c = rnd.random()
    if c < mix[0]:
        cfg = gen_tt.swarm_cfg_tt(rnd, **({'W': W} if W else {}))
        p, argv = gen_tt.gen_tt_program(rnd, cfg)
        return p, argv, cfg['W'], 'tt'
    cfg = gen.swarm_cfg(rnd, W=W)
    p, argv = gen.gen_program(rnd, cfg)
    if c < mix[0] + mix[1]:
        return p, argv, cfg['W'], 'seq'
    kind = rnd.choice(faults.KINDS)
    trigger = rnd.random() < 0.5
    p2, info = faults.plant(rnd, p, kind, cfg['W'], trigger)
    if p2 is None:
        return p, argv, cfg['W'], 'seq'
    return p2, argv, cfg['W'], 'fault:' + kind + (':trigger' if trigger else ':harmless')
