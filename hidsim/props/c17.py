"""C17 - the write family prints canonically for every value."""
from .. import lang
from ..build import *   # noqa: F401,F403
from ..harness import case_rng
from ..runner import digest
from . import common

ID = 'C17'
LEVEL = 'exploration'
CHUNKS = 16
LENGTHS = list(range(0, 65))
N_FIXED = CHUNKS + 2 + len(LENGTHS)
TIERS = {
    'quick': {'cases': N_FIXED + 120, 'wall': 100, 'chunk': 1},
    'thorough': {'cases': N_FIXED + 3000, 'wall': 900, 'chunk': 4},
}
EXHAUSTIVE = {'quick': False, 'thorough': False}
RULE = ('fixed jobs: 16 chunk programs that write every 16-bit integer (4096 consecutive values each, '
        'start taken from argv) next to guard variables and a neighbouring array; one program writing all '
        '256 bytes (computed, and as literal tables / string literals holding every byte value) and both bools; for every length 0..64 one program writing a byte array/string of that '
        'length in eight storage classes (const global, mutable global, mutable local literal, dynamic and '
        'filled, string literal, string variable, string converted with `is byte[]`, argv). seeded jobs: '
        'boundary and random integers at 24/32/64 bits, and "lean" programs in which write(int) is the '
        'deepest call of a function holding a live stack array (main / callee / loop), each also at the '
        'measured minimal stack with poisoned free memory. oracle: committed output vs the reference interpreter (str(int), raw bytes, '
        'true/false, exactly one newline for writeln) plus M-mem on every store of the library routines '
        'and guard variables checked by the program itself. distinct = hash of (source, argv, config); '
        'non-trivial = the run printed at least one value through the write family and won.')
ASSUMPTIONS = ['SVM as calibrated (DESIGN Appendix A)',
               'the 16-bit sweep is exhaustive only if all 16 chunk jobs completed (see coverage.sweep16_complete)']


def guard_checks():
    return [if_(bin_('!=', V('g1'), I(12345)), block(write(S('!g1')))),
            if_(bin_('!=', V('g2'), C(0x5a)), block(write(S('!g2')))),
            if_(bin_('!=', idx('nb', I(7)), C(8)), block(write(S('!nb'))))]


def int_sweep_prog(use_writeln):
    body = [
        decl('int', 'g1', I(12345)),
        decl(arr('byte'), 'nb', ('arr', tuple(I(i) for i in range(1, 9))), True),
        decl('byte', 'g2', C(0x5a)),
        decl('int', 'x', V('lo')),
        for_up('i', I(0), V('n'),
               (writeln(V('x')) if use_writeln else block(write(V('x')), write(C(' ')))),
               aug('+', 'x', I(1)),
               *guard_checks()),
        ex(call('dump', V('nb'))),
        write(V('g1')),
    ]
    return prog([], [dump_func('byte'), func('empty', '@is_you', [('int', 'lo'), ('int', 'n')], *body)])


def bytes_bools_prog():
    body = [
        decl('int', 'g1', I(12345)),
        decl(arr('byte'), 'nb', ('arr', tuple(I(i) for i in range(1, 9))), True),
        decl('byte', 'g2', C(0x5a)),
        for_up('i', I(0), I(256),
               decl('byte', 'b', is_(V('i'), 'byte')),
               write(V('b')),
               *guard_checks()),
        write(V('allc')), write(V('allm')), write(('str', ''.join(chr(v) for v in range(256)))),
        write(is_(('str', ''.join(chr(255 - v) for v in range(256))), arr('byte', True))),
        write(B(True)), write(B(False)), writeln(B(True)), writeln(B(False)),
        decl('bool', 't', bin_('>', V('g1'), I(0))),
        write(V('t')), writeln(('un', 'not', V('t'))), writeln(),
        for_up('j', I(0), I(256), writeln(is_(V('j'), 'byte'))),
        # bools produced by a cast right inside the call (no variable in between): multiples of 64 up to 1216,
        # their low bytes, and negative multiples of 256
        for_up('k', I(0), I(20),
               write(is_(bin_('*', V('k'), I(64)), 'bool')), write(C(',')),
               write(is_(is_(bin_('*', V('k'), I(64)), 'byte'), 'bool')), write(C(',')),
               writeln(is_(bin_('-', I(0), bin_('*', V('k'), I(256))), 'bool'))),
        ex(call('dump', V('nb'))),
    ]
    tables = [decl(arr('byte', True), 'allc', ('arr', tuple(C(v) for v in range(256))), True),
              decl(arr('byte', False), 'allm', ('arr', tuple(C(255 - v) for v in range(256))), True)]
    return prog(tables, [dump_func('byte'), func('empty', '@is_you', [], *body)])


def data_of(L, salt):
    return bytes((i * 37 + salt * 11 + 5) & 0xFF for i in range(L))


def length_prog(L):
    d0, d1, d2, d3, d4 = (data_of(L, k) for k in range(5))
    lit = lambda d: ('arr', tuple(I(b) for b in d))   # noqa: E731
    glob = [decl(arr('byte', True), 'cg', lit(d0), True),
            decl(arr('byte', False), 'mg', lit(d1), True),
            decl('string', 'sg', S(d4.decode('latin-1').encode('latin-1')), True)]
    glob[2] = decl('string', 'sg', ('str', d4.decode('latin-1')), True)
    sep = write(C('|'))
    body = [
        decl('int', 'g1', I(12345)),
        decl(arr('byte'), 'nb', ('arr', tuple(I(i) for i in range(1, 9))), True),
        decl('byte', 'g2', C(0x5a)),
        write(V('cg')), sep, write(V('mg')), sep,
        decl(arr('byte'), 'ml', lit(d2), True), write(V('ml')), sep,
        dyn('byte', 'dy', I(L)),
        for_up('i', I(0), ln('dy'), setv(idx('dy', V('i')), is_(bin_('+', bin_('*', V('i'), I(37)), I(38)), 'byte'))),
        writeln(V('dy')), sep,
        write(('str', d4.decode('latin-1'))), sep,
        decl('string', 'sv', V('sg')), writeln(V('sv')), sep,
        write(is_(V('sv'), arr('byte', True))), sep,
        write(V('qa')), sep, write(V('qs')), sep,
        write(ln('qa')), write(ln('qs')),
        *guard_checks(),
        ex(call('dump', V('nb'))),
    ]
    p = prog(glob, [dump_func('byte'),
                    func('empty', '@is_you', [('string', 'qs'), (arr('byte'), 'qa')], *body)])
    text = ''.join(chr(0x61 + (i * 7) % 26) for i in range(L))
    argv = [text] + [str(b) for b in d3]
    return p, argv


def samples_prog(vals):
    body = [
        decl('int', 'g1', I(12345)),
        decl(arr('byte'), 'nb', ('arr', tuple(I(i) for i in range(1, 9))), True),
        decl('byte', 'g2', C(0x5a)),
        for_up('i', I(0), ln('q'), write(idx('q', V('i'))), write(C(',')),
               writeln(('un', '-', idx('q', V('i')))), *guard_checks()),
    ] + [writeln(I(v)) for v in vals[:6]] + [ex(call('dump', V('nb')))]
    return prog([], [dump_func('byte'), func('empty', '@is_you', [(arr('int', True), 'q')], *body)])


def lean_prog(rnd, W):
    """write(int) is the deepest call of a function that holds a live stack array:
    nothing else raises the frame high-water mark, so the digit buffer must be
    accounted for by the write call itself."""
    maxs = (1 << (8 * W - 1)) - 1
    n = rnd.randrange(1, 9)
    el = rnd.choice(('byte', 'byte', 'int', 'bool'))
    if el == 'byte':
        lit = ('arr', tuple(C(0x41 + k) for k in range(n)))
        show = [write(idx('a', V('i')))]
    elif el == 'int':
        lit = ('arr', tuple(I(k + 1) for k in range(n)))
        show = [write(is_(idx('a', V('i')), 'byte'))]
    else:
        lit = ('arr', tuple(B(k % 2 == 0) for k in range(n)))
        show = [write(is_(idx('a', V('i')), 'byte'))]
    vals = [rnd.choice((maxs, -maxs - 1, -maxs, maxs - 1, 10 ** (len(str(maxs)) - 1), -(10 ** (len(str(maxs)) - 1)))),
            rnd.randrange(-maxs - 1, maxs + 1), rnd.choice((0, 7, -7, 12345 % maxs))]
    core = [decl(arr(el), 'a', lit, True)]
    where = rnd.choice(('main', 'callee', 'loop'))
    writes = [rnd.choice((write, writeln))(V('n')), *[rnd.choice((write, writeln))(I(v)) for v in vals[1:]]]
    tail = [for_up('i', I(0), I(n), *show), write(C('.'))]
    if where == 'loop':
        body = core + [for_up('k', I(0), I(2), *writes)] + tail
    else:
        body = core + writes + tail
    if where == 'callee':
        fs = [func('empty', 'leaf', [('int', 'n')], *body),
              func('empty', '@is_you', [('int', 'n')], ex(call('leaf', V('n'))), write(C('!')))]
    else:
        fs = [func('empty', '@is_you', [('int', 'n')], *body)]
    return prog([], fs), [str(vals[0])]


def job(seed, idx):
    """-> (label, prog, argv, W, do_tight)"""
    if idx < CHUNKS:
        lo = -32768 + idx * 4096
        return (f'sweep16[{lo},{lo + 4096})', int_sweep_prog(idx % 2 == 1), [str(lo), '4096'], 2, False)
    if idx == CHUNKS:
        return ('bytes+bools', bytes_bools_prog(), [], 2, True)
    if idx == CHUNKS + 1:
        # the edges of the 16-bit range at the minimal stack with poison
        return ('sweep16 edges tight', int_sweep_prog(False), ['32760', '16'], 2, True)
    if idx < N_FIXED:
        L = LENGTHS[idx - CHUNKS - 2]
        p, argv = length_prog(L)
        return (f'length {L}', p, argv, (2, 3, 4, 8)[L % 4], L % 8 == 0)
    rnd = case_rng(seed, ID, idx)
    if idx % 2 == 0:
        W = rnd.choice((2, 2, 3, 4, 8))
        p, argv = lean_prog(rnd, W)
        return (f'lean write(int) W={W}', p, argv, W, True)
    W = rnd.choice((3, 4, 8))
    maxs = (1 << (8 * W - 1)) - 1
    edge = [0, 1, -1, 9, 10, -10, 99, 100, maxs, -maxs - 1, maxs - 1, -maxs, 10 ** (len(str(maxs)) - 1),
            -(10 ** (len(str(maxs)) - 1)), 10 ** (len(str(maxs)) - 1) - 1]
    vals = [rnd.choice(edge) if rnd.random() < 0.5 else rnd.randrange(-maxs - 1, maxs + 1)
            for _ in range(rnd.randrange(1, 12))]
    if rnd.random() < 0.5:
        vals = [v for v in vals if v != -maxs - 1] or [maxs]
    return (f'samples W={W}', samples_prog(vals), [str(v) for v in vals], W, True)


def case(seed, idx, tier):
    label, p, argv, W, tight = job(seed, idx)
    res = common.new_result()
    cfg = dict(W=W, stack=600, max_steps=6_000_000)
    found, ev = common.problems_of(p, argv, cfg)
    common.add_counters(res, ev)
    res['key'] = digest(ev.src, argv, W)
    res['nontrivial'] = bool(ev.res is not None and ev.res.outcome == 'WIN' and ev.ref.output())
    res['counters'][('sweep16_chunks' if idx < CHUNKS else 'other_jobs')] = 1
    res['counters']['values_written'] = len(ev.ref.output().split()) if idx < CHUNKS else 0
    cfg_bad = cfg
    if not found and tight and ev.res is not None and ev.res.outcome == 'WIN':
        n = common.min_stack(ev.src, argv, W, False, hi=600, max_steps=6_000_000)
        if n is not None:
            cfg2 = dict(cfg, stack=n, poison_seed=idx + 1)
            found, ev2 = common.problems_of(p, argv, cfg2, ref=ev.ref)
            common.add_counters(res, ev2)
            res['faults_fired']['stack_exact'] = 1
            res['max']['min_stack_words'] = n
            if found:
                ev, cfg_bad = ev2, cfg2
    res['digest'] = digest(res['key'], ev.res.history if ev.res is not None else None, found)
    if idx in (0, CHUNKS, CHUNKS + 5) or idx == N_FIXED:
        res['sample'] = dict(common.sample_of(p, argv, ev, 700), job=label)
    if found:
        common.report(res, p, argv, cfg_bad, found, ev, do_shrink=idx >= CHUNKS, extra={'job': label})
    return res


def finalize(cov, agg):
    cov['sweep16_complete'] = agg['counters'].get('sweep16_chunks', 0) == CHUNKS
    cov['exhaustive_part'] = ('all 65536 16-bit integers, all 256 bytes, both bools, all lengths 0..64 x 8 storage classes'
                              if cov['sweep16_complete'] else 'incomplete (wall budget)')


def replay(pl):
    return common.generic_replay(pl)
