"""C04 - checked builds are memory safe, even with the stack exactly full."""
from .. import gen, gen_tt, faults, lang
from ..build import *   # noqa: F401,F403
from ..harness import case_rng
from ..runner import digest, hist_text
from . import common

ID = 'C04'
LEVEL = 'fault_enumeration'
TIERS = {
    'quick': {'cases': 5 + 512 + 636 + 40 + 220, 'wall': 120, 'chunk': 4},
    'thorough': {'cases': 5 + 512 + 636 + 40 + 6000, 'wall': 1500, 'chunk': 4},
}
RULE = ('cases 0..4: stack array literals larger than a 16-bit word can address (65600 bytes, 32800 ints, 70000 bools, '
        '3 x 30000 bytes, 3 x 12000 ints in one frame) must be rejected or end in stack_overflow. Cases 517..1152: the STALE-GUARD MATRIX (seed independent): deep call x array kind x length x sequence of later locals x {main, callee}, each with the stack-size axis enumerated; then 40 fixed nested-index programs. Cases 5..516: the BAD-LENGTH MATRIX (seed independent): a dynamic array of each element type x word size '
        '{2,3,4,8} x 16 negative / minimal / maximal / wrapping run-time lengths x {local, callee}, declared next '
        'to a live array literal, stored into and read back, at 14 stack sizes 6..1200 words: every run must end in '
        'stack_overflow before any store, with the monitors silent. Further cases: an array-heavy program (array literals whose elements contain allocating calls, dynamic '
        'arrays with argv lengths, arrays passed down recursion, bool arrays over several bytes, library '
        'routines called from the deepest frame - also "lean" functions whose deepest call is write(int) next '
        'to a live stack array, and "frame shape" functions built from a seeded sequence of deep calls, array '
        'literals, dynamic arrays, byte/word locals and nested blocks that are all read back at the end - '
        'compound element assignment; "nested index" programs whose index expressions contain further lookups, .length '
        'and casts on both sides of stores; programs that compute with uninitialised int/byte/bool elements '
        '(judged by the monitors only, under several poisons and stack sizes); every 4th case a time-travel '
        'program; every 5th case with a planted index/division fault) is first run with a generous stack; '
        'then the stack-size axis is ENUMERATED: every size 0..N+2 words where N is the first size that '
        'completes (N <= 90; larger needs are bisected and the window N-6..N+2 plus seeded smaller sizes is '
        'enumerated), each run with freshly poisoned free stack and scratch registers. oracles at every '
        'size: no M-mem/M-scope/M-ctrl verdict, no committed halt, no machine fault; below N the outcome is '
        'ERROR(stack_overflow) and (sequential programs) the history is a prefix of the reference history; '
        'from N on the history equals the reference history; two poisons at N give identical histories. '
        'distinct = hash(source, argv, W); non-trivial = N > 0 was found and at least one smaller size '
        'ended in stack_overflow.')
ASSUMPTIONS = ['M-mem classifies accesses from live ap/fp, the assembler memory map and provenance tags (DESIGN 2.2); '
               'imprecision can only lose strength',
               'programs never read uninitialised elements (generator) - reads of poisoned free memory would be a finding']
CLASSES = common.ALL_CLASSES


def heavy_cfg(rnd):
    cfg = gen.swarm_cfg(rnd)
    cfg.update(arrays=True, dyn=True, calls=True, boolarr=True, compound=True, alias=True,
               recursion=rnd.random() < 0.7, strarr=rnd.random() < 0.5,
               n_funcs=rnd.randrange(1, 5), n_stmts=rnd.randrange(4, 10), depth=rnd.randrange(1, 3),
               expr_depth=rnd.randrange(2, 4), bigvals=rnd.random() < 0.5, sleep=False)
    return cfg


def deep_library_prog(rnd, W):
    """Recursion to a seeded depth, then every library routine from the deepest frame."""
    maxs = (1 << (8 * W - 1)) - 1
    depth = rnd.randrange(0, 5)
    n = rnd.randrange(1, 9)
    body_deep = [
        decl(arr('byte'), 'loc', ('arr', tuple(I(rnd.randrange(256)) for _ in range(n))), True),
        write(V('v')), write(C(' ')), write(I(-maxs - 1)), write(C(' ')),
        write(bin_('>', V('v'), I(0))), write(S(' str ')), write(V('loc')), write(V('pa')),
        writeln(is_(S('conv'), arr('byte', True))),
        aug('+', idx('loc', I(n - 1)), I(1)), aug('*', idx('pa', I(0)), I(3)),
        ex(call('dump', V('loc'))), ex(call('dump', V('pa'))),
    ]
    f = func('empty', 'deep', [('int', 'd'), ('int', 'v'), (arr('byte'), 'pa')],
             if_(bin_('>', V('d'), I(0)),
                 block(decl(arr('int'), 'pad', ('arr', (V('d'), V('v'))), True),
                       ex(call('deep', bin_('-', V('d'), I(1)), bin_('+', V('v'), idx('pad', I(0))), V('pa'))),
                       write(idx('pad', I(1))), ret())),
             *body_deep)
    main = func('empty', '@is_you', [('int', 'q'), (arr('byte'), 'qa')],
                dyn('bool', 'bits', bin_('+', bin_('%', V('q'), I(1)), I(rnd.choice((1, 9, 17))))),
                for_up('i', I(0), ln('bits'), setv(idx('bits', V('i')), bin_('==', bin_('%', V('i'), I(2)), I(0)))),
                ex(call('deep', I(depth), V('q'), V('qa'))),
                ex(call('dump', V('bits'))), ex(call('dump', V('qa'))))
    argv = [str(rnd.choice((0, 1, -1, maxs, -maxs - 1, 12345 % maxs)))] + [str(rnd.randrange(256)) for _ in range(rnd.randrange(1, 5))]
    return prog([], [dump_func('byte'), dump_func('bool'), f, main]), argv


def global_index_prog(rnd, W):
    """a[pos] = jump(): pos is in range when the index is evaluated, the right-hand side
    then moves it far away; the store must still go to the old element."""
    el = rnd.choice(('byte', 'int', 'bool'))
    n = rnd.choice((2, 4, 9))
    far = rnd.choice((n, n + 5, -1, -8, 2 * n + 40, 300))
    lit = {'byte': lambda i: I(65 + i), 'int': lambda i: I(100 + i), 'bool': lambda i: B(i % 2 == 0)}[el]
    rhs = {'byte': is_(call('jump'), 'byte'), 'int': call('jump'), 'bool': bin_('>', call('jump'), I(0))}[el]
    storage = rnd.choice(('local', 'global', 'dynamic'))
    glob = [decl('int', 'pos', I(0))]
    pre = []
    if storage == 'global':
        glob.append(decl(arr(el), 'cells', ('arr', tuple(lit(i) for i in range(n))), True))
    elif storage == 'local':
        pre = [decl(arr(el), 'cells', ('arr', tuple(lit(i) for i in range(n))), True)]
    else:
        pre = [dyn(el, 'cells', I(n)), for_up('f', I(0), ln('cells'), setv(idx('cells', V('f')), lit(0)))]
    stmt_ = setv(idx('cells', V('pos')), rhs)
    if el != 'bool' and rnd.random() < 0.4:
        stmt_ = aug('+', idx('cells', V('pos')), call('jump') if el == 'int' else I(1))
        if el == 'byte':
            stmt_ = setv(idx('cells', V('pos')), rhs)
    body = pre + [decl('int', 'guard', I(12345)), setv('pos', I(rnd.randrange(n))), stmt_, write(V('pos')),
                  setv('pos', I(0)), ex(call('dump', V('cells'))), write(V('guard'))]
    jump = func('int', 'jump', [], setv('pos', I(far)), write(C('j')), ret(I(77)))
    return prog(glob, [dump_func(el), jump, func('empty', '@is_you', [], *body)]), []


def frame_shape_prog(rnd, W):
    """One function whose frame is shaped by a seeded sequence of events - deep calls, array
    literals, dynamic arrays, byte and word locals, nested blocks - all still live at the end,
    where everything is read back.  Guard accounting errors show up when the enumerated stack
    size hits the window between the stale and the correct requirement."""
    n_ev = rnd.randrange(3, 8)
    names = []
    cnt = [0]

    def nm(p):
        cnt[0] += 1
        return f'{p}{cnt[0]}'

    def events(k, depth, script=None):
        out = []
        for j in range(k):
            c = script[j] if script else rnd.randrange(9)
            if c == 0:
                out += [rnd.choice((writeln(V('n')), write(bin_('>', V('n'), I(0))), ex(call('h3', V('n'), V('n'), V('n'))),
                                    write(I(-(1 << (8 * W - 1)))), ex(call('hb', is_(V('n'), 'byte'), bin_('>', V('n'), I(1))))))]
            elif c == 1:
                v = nm('l')
                el = rnd.choice(('int', 'byte', 'bool'))
                ln_ = rnd.randrange(1, 5)
                first = {'int': V('n'), 'byte': is_(V('n'), 'byte'), 'bool': bin_('>', V('n'), I(0))}[el]
                rest = {'int': lambda i: I(i + 2), 'byte': lambda i: I(66 + i), 'bool': lambda i: B(i % 2 == 0)}[el]
                out += [decl(arr(el), v, ('arr', tuple([first] + [rest(i) for i in range(ln_ - 1)])), True)]
                names.append((v, 'arr', el, ln_))
            elif c == 2:
                v = nm('d')
                el = rnd.choice(('int', 'byte', 'bool'))
                ln_ = rnd.choice((1, 2, 3, 4, 9))
                f = nm('f')
                fillv = {'int': bin_('+', V(f), I(40)), 'byte': is_(bin_('+', V(f), I(97)), 'byte'),
                         'bool': bin_('==', bin_('%', V(f), I(2)), I(0))}[el]
                if rnd.random() < 0.5:
                    # initialised by direct stores: nothing is pushed after the allocation
                    el = rnd.choice(('byte', 'byte', 'bool'))
                    ln_ = rnd.choice((1, 2, 3, 4))
                    val = (lambda i: C(65 + i)) if el == 'byte' else (lambda i: B(i % 2 == 0))
                    out += [dyn(el, v, bin_('+', bin_('%', V('n'), I(1)), I(ln_)))]
                    out += [setv(idx(v, I(i)), val(i)) for i in range(ln_)]
                else:
                    out += [dyn(el, v, bin_('+', bin_('%', V('n'), I(1)), I(ln_))),
                            for_up(f, I(0), ln(v), setv(idx(v, V(f)), fillv))]
                names.append((v, 'arr', el, ln_))
            elif c in (3, 4):
                v = nm('c')
                t = rnd.choice(('byte', 'bool'))
                out += [decl(t, v, C(rnd.randrange(65, 91)) if t == 'byte' else bin_('>=', V('n'), I(0)))]
                names.append((v, t, None, 0))
            elif c == 5:
                v = nm('x')
                out += [decl('int', v, bin_('+', V('n'), I(rnd.randrange(100))))]
                names.append((v, 'int', None, 0))
            elif c == 6 and depth > 0:
                mark = len(names)
                inner = events(rnd.randrange(1, 4), depth - 1)
                inner += readback(names[mark:])
                del names[mark:]
                out += [block(*inner)]
            else:
                out += [write(C('.'))]
        return out

    inline_only = rnd.random() < 0.6

    def show_inline(e, t):
        # no call, no frame growth: a deeper frame later on would mask an under-sized guard
        if t == 'bool':
            return [if_(e, block(write(C('t'))), block(write(C('f'))))]
        if t == 'byte':
            return [write(e)]
        return [write(is_(e, 'byte')), if_(bin_('<', e, I(0)), block(write(C('-'))))]

    def readback(ns):
        out = []
        for v, kind, el, ln_ in ns:
            if kind == 'arr' and inline_only:
                for k2 in range(ln_):
                    out += show_inline(idx(v, I(k2)), el)
            elif kind == 'arr':
                out += [ex(call('dump', V(v)))]
            elif inline_only:
                out += show_inline(V(v), kind)
            elif kind == 'byte':
                out += [write(V(v))]
            else:
                out += [write(V(v)), write(C(' '))]
        return out

    if rnd.random() < 0.5:
        # the shape that exposes stale guards: a deep point first, then an array, then locals that are
        # deeper than the allocation point but not deeper than the earlier high-water mark
        script = [0] + ([1] if rnd.random() < 0.4 else []) + [rnd.choice((2, 2, 1))] + \
                 [rnd.choice((3, 4, 5)) for _ in range(rnd.randrange(1, 4))]
        body = events(len(script), 0, script)
    else:
        body = events(n_ev, 2)
    body += readback(names)
    h3 = func('empty', 'h3', [('int', 'a'), ('int', 'b'), ('int', 'c')], write(bin_('+', V('a'), bin_('*', V('b'), V('c')))))
    hb = func('empty', 'hb', [('byte', 'a'), ('bool', 'b')], write(V('a')), write(V('b')))
    where = rnd.random()
    if where < 0.5:
        fs = [func('empty', '@is_you', [('int', 'n')], *body)]
    else:
        fs = [func('empty', 'shaped', [('int', 'n')], *body),
              func('empty', '@is_you', [('int', 'n')], write(C('[')), ex(call('shaped', V('n'))), write(C(']')))]
    return prog([], [dump_func('int'), dump_func('byte'), dump_func('bool'), h3, hb] + fs), [str(rnd.choice((0, 1, 7, -3)))]


# ---- stale-guard matrix (seed independent): a deep point first (a call that needs frame space), then an array, then
# locals that lie deeper than the allocation point but not deeper than the earlier high-water mark, everything read
# back without any further call.  An overflow guard that is computed too early, or not raised afterwards, lets the
# locals overlap the array when the stack is exactly full; the stack-size axis is enumerated for each program.
LOCSEQ = (('byte',), ('bool',), ('int',), ('byte', 'bool'), ('byte', 'byte', 'byte'), ('int', 'byte'), ('bool', 'int', 'bool'))
STALE = [(deep, ak, k, locs, where) for deep in range(5) for ak in ('dbyte', 'dbool', 'dint', 'lit')
         for k in (1, 3, 4) for locs in range(len(LOCSEQ)) for where in ('main', 'callee')
         if where == 'main' or (deep + locs) % 2 == 0]


def stale_prog(job, W):
    deep, ak, k, locs, where = job
    body = [(writeln(V('n')), write(bin_('>', V('n'), I(0))), ex(call('h3', V('n'), V('n'), V('n'))),
             write(I(-(1 << (8 * W - 1)))), ex(call('hb', is_(V('n'), 'byte'), bin_('>', V('n'), I(1)))))[deep]]
    el = {'dbyte': 'byte', 'dbool': 'bool', 'dint': 'int', 'lit': ('byte', 'bool', 'int')[k % 3]}[ak]
    val = {'byte': lambda i: C(65 + i), 'bool': lambda i: B(i % 2 == 0), 'int': lambda i: I(100 + i)}[el]
    if ak == 'lit':
        first = {'int': V('n'), 'byte': is_(V('n'), 'byte'), 'bool': bin_('>', V('n'), I(0))}[el]
        body.append(decl(arr(el), 'a', ('arr', tuple([first] + [val(i) for i in range(1, k)])), True))
    else:
        body.append(dyn(el, 'a', bin_('+', bin_('%', V('n'), I(1)), I(k))))
        body += [setv(idx('a', I(i)), val(i)) for i in range(k)]
    names = []
    for j, t in enumerate(LOCSEQ[locs]):
        v = f'c{j}'
        body.append(decl(t, v, {'byte': C(80 + j), 'bool': bin_('>=', V('n'), I(0)), 'int': bin_('+', V('n'), I(30 + j))}[t]))
        names.append((v, t))

    def show(e, t):
        if t == 'bool':
            return [if_(e, block(write(C('t'))), block(write(C('f'))))]
        if t == 'byte':
            return [write(e)]
        return [write(is_(e, 'byte')), if_(bin_('<', e, I(0)), block(write(C('-'))))]
    for i in range(k):
        body += show(idx('a', I(i)), el)
    for v, t in names:
        body += show(V(v), t)
    h3 = func('empty', 'h3', [('int', 'a'), ('int', 'b'), ('int', 'c')], write(bin_('+', V('a'), bin_('*', V('b'), V('c')))))
    hb = func('empty', 'hb', [('byte', 'a'), ('bool', 'b')], write(V('a')), write(V('b')))
    if where == 'main':
        fs = [func('empty', '@is_you', [('int', 'n')], *body)]
    else:
        fs = [func('empty', 'shaped', [('int', 'n')], *body),
              func('empty', '@is_you', [('int', 'n')], write(C('[')), ex(call('shaped', V('n'))), write(C(']')))]
    return prog([], [h3, hb] + fs), ['7']


def uninit_prog(rnd, W):
    """Computes with uninitialised int/byte/bool elements (allowed: their value is unspecified).
    Whatever garbage the poisoned stack holds, every access must stay inside its array: values
    are reduced with `% length` before they are used as indices."""
    n = rnd.choice((1, 3, 5, 8))
    m = rnd.choice((2, 9, 17))
    body = [
        dyn('int', 'gi', bin_('+', bin_('%', V('q'), I(1)), I(n))),
        dyn('byte', 'gb', I(n)),
        dyn('bool', 'gf', I(m)),
        decl(arr('int'), 'safe', ('arr', tuple(I(k) for k in range(6))), True),
        decl('int', 'acc', I(0)),
        for_up('i', I(0), ln('gi'),
               decl('int', 'j', bin_('%', idx('gi', V('i')), I(6))),
               aug('+', 'acc', idx('safe', V('j'))),
               setv(idx('safe', V('j')), bin_('+', V('i'), I(1))),
               decl('int', 'k', bin_('%', is_(idx('gb', bin_('%', V('i'), ln('gb'))), 'int'), ln('gf'))),
               if_(idx('gf', V('k')), block(setv(idx('gf', V('k')), B(False))), block(setv(idx('gf', V('k')), B(True)))),
               if_(bin_('==', idx('gf', V('k')), ('un', 'not', ('un', 'not', idx('gf', V('k'))))), block(write(C('.'))),
                   block(write(C('X'))))),
        write(C('|')), ex(call('dump', V('safe'))),
    ]
    if rnd.random() < 0.5:
        body = [ex(call('dirty', V('q')))] + body
    dirty = func('empty', 'dirty', [('int', 'x')],
                 decl(arr('byte'), 'junk', ('arr', tuple(I(255 - 7 * k) for k in range(12))), True),
                 decl(arr('int'), 'junk2', ('arr', (V('x'), I(-1), I(12345))), True), write(idx('junk', I(3))))
    return prog([], [dump_func('int'), dirty, func('empty', '@is_you', [('int', 'q')], *body)]), [str(rnd.randrange(-5, 50))]


def nested_index_prog(rnd, W):
    """Index expressions that themselves contain lookups in other arrays, strings, `.length` and casts, nested two
    or three deep, on both sides of stores: every register the lowering uses is busy while a pointer or a checked
    index is still needed.  Runs end in WIN or in an exact out_of_bounds, both compared with the reference."""
    L = 4

    def T(d):
        c = rnd.randrange(12) if d > 0 else rnd.randrange(3)
        if c == 0:
            return I(rnd.randrange(0, 4))
        if c == 1:
            return V('i')
        if c == 2:
            return V('j')
        if c == 3:
            return idx('ia', T(d - 1))
        if c == 4:
            return is_(idx('ba', T(d - 1)), 'int')
        if c == 5:
            return is_(idx('bits', T(d - 1)), 'int')
        if c == 6:
            return ln(idx('ws', T(d - 1)))
        if c == 7:
            return is_(idx(idx('ws', T(d - 1)), T(d - 1)), 'int')
        if c == 8:
            return bin_('%', T(d - 1), I(rnd.choice((2, 3, 4))))
        if c == 9:
            return bin_('%', bin_('+', T(d - 1), T(d - 1)), I(rnd.choice((3, 4))))
        if c == 10:
            return bin_('-', ln(rnd.choice(('ia', 'ba', 'bits', 'ws', 's'))), T(d - 1))
        return is_(idx('s', T(d - 1)), 'int')
    body = [
        decl(arr('int'), 'ia', ('arr', (I(2), I(0), V('q'), I(3))), True),
        decl(arr('byte'), 'ba', ('arr', (I(1), I(2), I(0), is_(V('q'), 'byte'))), True),
        decl(arr('bool'), 'bits', ('arr', (B(True), B(False), bin_('==', V('q'), I(1)), B(True))), True),
        decl(arr('string', True), 'ws', ('arr', (S('alpha'), S('be'), S('gam'), S('d'))), True),
        decl('string', 's', S('hello')), decl('int', 'i', bin_('%', V('q'), I(4))), decl('int', 'j', I(rnd.randrange(0, 4))),
    ]
    for _ in range(rnd.randrange(3, 7)):
        c = rnd.randrange(8)
        d = rnd.choice((1, 2, 2, 3))
        if c == 0 and rnd.random() < 0.5:
            # the index is a `.length` whose own operand needs the third register (bit / string lookup)
            inner = rnd.choice((is_(idx('bits', T(d - 1)), 'int'), bin_('%', is_(idx('s', T(d - 1)), 'int'), I(4)),
                                is_(idx('ba', T(d - 1)), 'int')))
            body += [write(idx(idx('ws', T(d)), ln(idx('ws', inner)))), write(C(' '))]
        elif c == 0:
            body += [write(idx(idx('ws', T(d)), T(d))), write(C(' '))]
        elif c == 1:
            body += [write(idx('ia', T(d))), write(C(' '))]
        elif c == 2:
            body.append(setv(idx('bits', T(d)), ('un', 'not', idx('bits', T(d - 1)))))
        elif c == 3:
            body.append(setv(idx('ia', T(d)), bin_('%', T(d), I(4))))
        elif c == 4:
            body.append(aug(rnd.choice('+-'), idx('ba', T(d)), is_(bin_('%', T(d - 1), I(3)), 'byte')))
        elif c == 5:
            body.append(aug('+', idx('ia', T(d)), T(d - 1)))
        elif c == 6:
            body += [write(bin_(rnd.choice(('+', '*', '-')), T(d), T(d))), write(C(' '))]
        else:
            body.append(setv('i', bin_('%', T(d), I(4))))
    body += [ex(call('dump', V('ia'))), ex(call('dump', V('ba'))), ex(call('dump', V('bits')))]
    fs = [('func', 'empty', 'dump', ((('arrt', el, True), 'a'),), dump_func(el)[4]) for el in ('int', 'byte', 'bool')]
    return prog([], fs + [func('empty', '@is_you', [('int', 'q')], *body)]), [str(rnd.randrange(0, 4))]


def make_case(seed, idx):
    rnd = case_rng(seed, ID, idx)
    W = rnd.choice((2, 2, 3, 4, 8))
    kind = 'seq'
    if idx % 4 == 3:
        cfg = gen_tt.swarm_cfg_tt(rnd, W=W)
        p, argv = gen_tt.gen_tt_program(rnd, cfg)
        kind = 'tt'
    elif idx % 7 == 0:
        p, argv = deep_library_prog(rnd, W)
    elif idx % 7 == 5:
        from .c17 import lean_prog
        p, argv = lean_prog(rnd, W)
    elif idx % 7 == 2 and idx % 3 == 0:
        p, argv = global_index_prog(rnd, W)
    elif idx % 7 in (1, 6):
        p, argv = frame_shape_prog(rnd, W)
        kind = 'frame'
    elif idx % 7 == 4 and idx % 2 == 0:
        p, argv = uninit_prog(rnd, W)
        kind = 'uninit'
    elif idx % 7 == 4 or idx % 7 == 3 and idx % 2 == 0:
        p, argv = nested_index_prog(rnd, W)
        kind = 'nested'
    else:
        cfg = heavy_cfg(rnd)
        cfg['W'] = W
        p, argv = gen.gen_program(rnd, cfg)
    twin = None
    if idx % 5 == 4:
        import random as _random
        fk = rnd.choice(('div', 'idx_read', 'idx_write', 'idx_aug', 'str_idx', 'bad_len', 'bad_len'))
        state = rnd.getstate()
        p2, info = faults.plant(rnd, p, fk, W, True)
        if p2 is not None:
            if fk == 'bad_len':
                r2 = _random.Random()
                r2.setstate(state)
                twin, _ = faults.plant(r2, p, fk, W, False)     # same place, harmless length
            p = p2
            kind += '+fault'
    return rnd, p, argv, W, kind, twin


def judge_size(p, argv, W, s, ref, kind, N, poison):
    """-> (problems, ev)"""
    cfg = dict(W=W, stack=s, poison_seed=poison, max_steps=1_500_000)
    ev = common.evaluate(p, argv, ref=ref, **cfg)
    probs = [(c, d) for c, d in ev.problems if c in CLASSES]
    r = ev.res
    if r is None:
        return probs, ev, cfg
    overflow = r.outcome == 'ERROR' and r.error_kind == 'stack_overflow'
    want = [tuple(e) for e in ref.history]
    got = [tuple(e) for e in r.history]
    if N is not None and s >= N and r.outcome != 'BUDGET':
        if got != want or r.outcome != ref.outcome:
            probs.append(('history', f'stack {s} >= need {N}: expected [{hist_text(want)}] got '
                                     f'{r.outcome}/{r.error_kind} [{hist_text(got)}]'))
    if N is not None and s < N:
        if not overflow and r.outcome not in ('BUDGET', 'DEFEAT', 'MACHINE_FAULT'):
            probs.append(('no-overflow-below-need', f'stack {s} < need {N} ended {r.outcome}/{r.error_kind} '
                                                    f'[{hist_text(got)}] instead of stack_overflow'))
        elif overflow and not kind.startswith('tt'):
            pre = got[:-2]
            if want[:len(pre)] != pre:
                probs.append(('corrupted-prefix', f'stack {s}: output before stack_overflow [{hist_text(pre)}] is not '
                                                  f'a prefix of the reference [{hist_text(want)}]'))
    return probs, ev, cfg


# ---- bad-length matrix: a negative / wrapping run-time length must end in stack_overflow before any store, at
# every stack size, for every element type and word size (the guards compute with sizes that wrap)
BADLEN = [(el, n, W, where) for el in ('int', 'byte', 'bool', 'string') for W in (2, 3, 4, 8)
          for n in (-1, -2, -3, -4, -5, -7, -8, -9, -12, -16, -17, 'min', 'min+1', 'wrap1', 'wrap1+1', 'max')
          for where in ('local', 'callee')]
N_BADLEN = len(BADLEN)
N_FRAMEFIX = len(STALE)     # 636
N_NESTFIX = 40


def badlen_case(k):
    from .c05 import len_value
    el, n, W, where = BADLEN[k]
    maxs = (1 << (8 * W - 1)) - 1
    v = n if isinstance(n, int) else {'min': -maxs - 1, 'min+1': -maxs}.get(n)
    if v is None:
        v = len_value(n, el, W)
    core = [decl(arr('int'), 'before', ('arr', (I(11), I(22), V('fz'))), True), write(S('a')), dyn(el, 'd', V('fz')),
            write(ln('d')), setv(idx('d', I(0)), {'int': I(1), 'byte': C('x'), 'bool': B(True), 'string': S('s')}[el]),
            write(S('b')), ex(call('dump', V('before')))]
    if where == 'callee':
        funcs = [func('empty', 'mk', [('int', 'fz')], *core)]
        body = [write(S('p')), ex(call('mk', V('fz'))), write(S('q'))]
    else:
        funcs, body = [], core
    p = prog([], [dump_func('int')] + funcs + [func('empty', '@is_you', [('int', 'fz')], *body)])
    res = common.new_result()
    res['counters']['kind_badlen_matrix'] = 1
    bad = None
    runs = 0
    ref = None
    for s_ in (6, 12, 13, 14, 15, 16, 17, 18, 20, 24, 33, 64, 200, 1200):
        cfg = dict(W=W, stack=s_, poison_seed=k * 50 + s_, max_steps=300_000)
        ev = common.evaluate(p, [str(v)], ref=ref, **cfg)
        ref = ev.ref
        common.add_counters(res, ev)
        runs += 1
        pr = [(c, d) for c, d in ev.problems if c in CLASSES and c != 'history']
        if ev.res is not None and not (ev.res.outcome == 'ERROR' and ev.res.error_kind == 'stack_overflow'):
            pr.append(('history', f'{el} d[{v}] ({n}) at word size {W}, stack {s_} words: expected stack_overflow, '
                                  f'got {ev.res.outcome}/{ev.res.error_kind} [{hist_text(ev.res.history, 200)}]'))
        elif ev.res is not None and ev.res.output() not in (b'', b'a', b'p', b'pa'):
            pr.append(('history', f'{el} d[{v}] at stack {s_}: output {ev.res.output()!r} after the faulting declaration'))
        if pr and bad is None:
            bad = (pr, ev)
    if k < 2:
        res['sample'] = dict(common.sample_of(p, [str(v)], ev, 900), job=f'bad-length matrix: {el} d[{n}] {where}, word size {W}, 14 stack sizes')
    res['key'] = digest('badlen', el, str(n), W, where)
    res['nontrivial'] = runs > 0
    res['counters']['sizes_run'] = runs
    res['faults_fired']['stack_overflow'] = runs
    res['digest'] = digest(res['key'], bad[0] if bad else None)
    if bad is not None:
        probs, ev_b = bad
        res['violations'].append({'cls': probs[0][0], 'detail': probs[0][1], 'fingerprint': None,
                                  'payload': common.payload(p, [str(v)], ev_b, {'kind': 'badlen', 'badlen_idx': k}),
                                  'sample': common.sample_of(p, [str(v)], ev_b)})
    return res


# ---- objects larger than the word can address (seed independent, few and slow): a stack array literal with more
# elements than a length word / the frame guards can represent must be rejected or end in stack_overflow
HUGE = [('byte', 65600, 1), ('int', 32800, 1), ('bool', 70000, 1), ('byte', 30000, 3), ('int', 12000, 3)]


def huge_case(k):
    el, n, copies = HUGE[k]
    zero = {'byte': I(0), 'int': I(0), 'bool': B(False)}[el]
    first = {'byte': V('kb'), 'int': V('q'), 'bool': bin_('==', V('q'), I(7))}[el]
    body = [decl('int', 'canary', I(12345)), decl('byte', 'kb', is_(V('q'), 'byte'))]
    for c in range(copies):
        body.append(decl(arr(el), f'a{c}', ('arr', (first,) + (zero,) * (n - 1)), True))
    for c in range(copies):
        body += [write(ln(f'a{c}')), write(C(' ')), write(idx(f'a{c}', I(0)) if el != 'byte' else is_(idx(f'a{c}', I(0)), 'int')), write(C(' '))]
    body.append(write(V('canary')))
    p = prog([], [func('empty', '@is_you', [('int', 'q')], *body)])
    res = common.new_result()
    res['counters']['kind_huge_literal'] = 1
    res['key'] = digest('huge', el, n, copies)
    from .. import render
    from ..runner import build, run_svm
    from ..monitors import Monitor
    src = render.program(p)
    viol = None
    b = build(src, W=2, stack=16000, argv=['7'])
    if b.error_kind == 'rejected':
        res['outcomes']['huge_literal_rejected_at_compile_time'] = 1
    elif b.prog is None:
        viol = (b.error_kind + '-error' if b.error_kind != 'internal' else 'internal-error', str(b.error))
    else:
        mon = Monitor()
        r = run_svm(b.prog, monitor=mon, max_steps=400_000)
        res['counters']['svm_runs'] += 1
        res['outcomes'][f'huge_literal:{r.outcome}/{r.error_kind}'] = 1
        if r.verdicts:
            viol = (r.verdicts[0][0], f'{copies} x {el}[{n}] literal on a 16-bit machine: {r.verdicts[0][2]}')
        elif not (r.outcome == 'ERROR' and r.error_kind == 'stack_overflow'):
            viol = ('history', f'{copies} x {el}[{n}] literal on a 16-bit machine with a 16000-word stack: expected a compile-time '
                               f'rejection or stack_overflow, got {r.outcome}/{r.error_kind} [{hist_text(r.history, 120)}]')
    res['nontrivial'] = True
    if k == 3:
        res['sample'] = {'job': f'{copies} x {el}[{n}] stack literal(s) at 16 bits', 'source': src[:300] + ' ...',
                         'result': dict(res['outcomes'])}
    res['digest'] = digest(res['key'], viol)
    if viol:
        res['violations'].append({'cls': viol[0], 'detail': viol[1], 'fingerprint': None,
                                  'payload': {'kind': 'huge', 'huge_idx': k}, 'sample': {'source': src[:300] + ' ...'}})
    return res


def case(seed, idx, tier):
    if idx < len(HUGE):
        return huge_case(idx)
    idx -= len(HUGE)
    if idx < N_BADLEN:
        return badlen_case(idx)
    idx -= N_BADLEN
    if idx < N_FRAMEFIX:
        import random as _random
        rnd = _random.Random(idx)
        W = (2, 3, 4, 8)[idx % 4]
        p, argv = stale_prog(STALE[idx], W)
        kind, twin = 'stale', None
    elif idx < N_FRAMEFIX + N_NESTFIX:
        # a fixed set of nested-index programs (seed independent)
        import random as _random
        rnd = _random.Random(9000 + idx)
        W = (2, 3, 4, 8)[idx % 4]
        p, argv = nested_index_prog(rnd, W)
        kind, twin = 'nested', None
    else:
        idx -= N_FRAMEFIX + N_NESTFIX
        rnd, p, argv, W, kind, twin = make_case(seed, idx)
    res = common.new_result()
    # generous run first
    gcfg = dict(W=W, stack=common.GENEROUS, max_steps=1_500_000)
    found, ev = common.problems_of(p, argv, gcfg, CLASSES)
    common.add_counters(res, ev)
    res['key'] = digest(ev.src, argv, W)
    res['counters']['kind_' + kind] = 1
    ref = ev.ref
    if kind == 'uninit':
        # the reference model refuses to predict unspecified values: judge by the monitors,
        # at several stack sizes and poisons
        found = [x for x in found if x[0] != 'history']
        bad = (found, ev, gcfg) if found else None
        runs = 0
        for s_, po in ((common.GENEROUS, 11), (common.GENEROUS, 12), (200, 13), (60, 14), (40, 15), (30, 16), (25, 17), (20, 18)):
            cfg_u = dict(W=W, stack=s_, poison_seed=idx * 100 + po, max_steps=1_500_000)
            ev_u = common.evaluate(p, argv, ref=ref, **cfg_u)
            common.add_counters(res, ev_u)
            runs += 1
            pr = [(c, d) for c, d in ev_u.problems if c in CLASSES]
            if ev_u.res is not None and ev_u.res.outcome not in ('WIN', 'ERROR', 'BUDGET'):
                pr.append(('halt', f'uninitialised-data run ended {ev_u.res.outcome}'))
            if ev_u.res is not None and ev_u.res.outcome == 'ERROR' and ev_u.res.error_kind != 'stack_overflow':
                pr.append(('history', f'uninitialised-data run raised {ev_u.res.error_kind} although every index is reduced modulo its length'))
            if ev_u.res is not None and b'X' in ev_u.res.output():
                pr.append(('history', 'an uninitialised bool element is not a strict 0/1 value'))
            if pr and bad is None:
                bad = (pr, ev_u, cfg_u)
        res['counters']['uninit_runs'] = runs
        res['faults_fired']['poison'] = runs
        res['nontrivial'] = True
        res['digest'] = digest(res['key'], bad[0] if bad else None)
        if bad is not None:
            probs, ev_b, cfg_b = bad
            res['violations'].append({'cls': probs[0][0], 'detail': probs[0][1], 'fingerprint': None,
                                      'payload': common.payload(p, argv, ev_b, {'kind': kind}),
                                      'sample': common.sample_of(p, argv, ev_b)})
        return res
    bad = (found, ev, gcfg) if found else None
    sizes_run = 0
    below = 0
    N = None
    if (not found and ev.res is not None and ref.outcome in ('WIN', 'ERROR', 'DIVERGE')
            and ev.res.outcome == ref.outcome and ev.res.steps < 120_000
            and not (ref.outcome == 'ERROR' and ref.error_kind == 'stack_overflow')):
        N = common.min_stack(ev.src, argv, W, False, hi=common.GENEROUS, max_steps=1_500_000)
        if N is not None:
            res['max']['need_words'] = N
            if N <= 90:
                sizes = list(range(0, N + 3))
                res['counters']['fully_enumerated'] = 1
            else:
                sizes = sorted(set(range(max(0, N - 6), N + 3)) | {0, 1, N // 2, rnd.randrange(N), rnd.randrange(N)})
                res['counters']['window_enumerated'] = 1
            for s in sizes:
                probs, ev_s, cfg_s = judge_size(p, argv, W, s, ref, kind, N, poison=idx * 1000 + s + 1)
                sizes_run += 1
                common.add_counters(res, ev_s)
                if ev_s.res is not None and ev_s.res.error_kind == 'stack_overflow':
                    below += 1
                if probs and bad is None:
                    bad = (probs, ev_s, cfg_s)
            # same size, different garbage
            if bad is None:
                probs, ev_s, cfg_s = judge_size(p, argv, W, N, ref, kind, N, poison=idx * 1000 + 999_999)
                sizes_run += 1
                common.add_counters(res, ev_s)
                if probs:
                    bad = (probs, ev_s, cfg_s)
    if (not found and N is None and ev.res is not None and ref.outcome == 'ERROR' and ref.error_kind == 'stack_overflow'
            and ev.res.outcome == 'ERROR'):
        # a bad dynamic length: must be refused at every stack size, with an intact prefix;
        # every size up to just above the need of the harmless twin is enumerated (guards that
        # wrap around do so only when the stack is within a few bytes of an exact fit)
        sizes = [0, 3, 10, 50, 200, 1000]
        if twin is not None:
            from .. import render
            nt = common.min_stack(render.program(twin), argv, W, False, hi=common.GENEROUS, max_steps=1_500_000)
            if nt is not None and nt <= 120:
                sizes = sorted(set(sizes) | set(range(0, nt + 12)))
                res['counters']['bad_length_fully_enumerated'] = 1
        for s in sizes:
            probs, ev_s, cfg_s = judge_size(p, argv, W, s, ref, kind, 10 ** 9, poison=idx * 1000 + s + 1)
            sizes_run += 1
            common.add_counters(res, ev_s)
            below += 1
            if probs and bad is None:
                bad = (probs, ev_s, cfg_s)
        res['counters']['bad_length_programs'] = 1
    res['counters']['sizes_run'] = sizes_run
    res['faults_fired']['stack_exhaust'] = below
    res['faults_fired']['poison'] = sizes_run
    res['nontrivial'] = bool((N or res['counters'].get('bad_length_programs')) and below)
    res['digest'] = digest(res['key'], N, below, bad[0] if bad else None)
    if idx < 2:
        res['sample'] = dict(common.sample_of(p, argv, ev, 1500), need_words=N, sizes_run=sizes_run, kind=kind)
    if bad is not None:
        probs, ev_b, cfg_b = bad
        cls = probs[0][0]
        if cls in CLASSES:
            common.report(res, p, argv, cfg_b, probs, ev_b, CLASSES, budget_s=15, extra={'need_words': N, 'kind': kind})
        else:
            res['violations'].append({'cls': cls, 'detail': probs[0][1], 'fingerprint': None,
                                      'payload': common.payload(p, argv, ev_b, {'need_words': N, 'kind': kind}),
                                      'sample': common.sample_of(p, argv, ev_b)})
    return res


def replay(pl):
    if pl.get('kind') == 'huge':
        return [{'cls': v['cls'], 'detail': v['detail'], 'fingerprint': None} for v in huge_case(pl['huge_idx'])['violations']]
    if pl.get('kind') == 'badlen':
        return [{'cls': v['cls'], 'detail': v['detail'], 'fingerprint': None} for v in badlen_case(pl['badlen_idx'])['violations']]
    p = lang.from_json(pl['prog'])
    cfg = pl['cfg']
    ev0 = common.evaluate(p, pl['argv'], W=cfg['W'], stack=common.GENEROUS)
    probs, ev, _ = judge_size(p, pl['argv'], cfg['W'], cfg['stack'], ev0.ref, pl.get('kind', 'seq'),
                              pl.get('need_words'), cfg.get('poison_seed'))
    if cfg['stack'] == common.GENEROUS:
        probs = common.problems_of(p, pl['argv'], cfg, CLASSES)[0]
    return [{'cls': c, 'detail': d, 'fingerprint': None} for c, d in probs]
