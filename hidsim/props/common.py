"""Shared evaluation of one generated program under one configuration."""
import random

from .. import lang, render, refmodel, shrink
from ..monitors import Monitor
from ..runner import (build, run_svm, compare_with_ref, hist_text, digest, REF_OK)
from ..machine import WIN, ERROR, DIVERGE, DEFEAT, BUDGET, MACHINE_FAULT

GENEROUS = 4000          # words: "large enough for the run"


class Eval:
    """Result of evaluating one (program, argv, configuration)."""
    __slots__ = ('src', 'ref', 'built', 'res', 'mon', 'problems', 'cfg')


def evaluate(prog, argv, W, stack=GENEROUS, unchecked=False, poison_seed=None,
             style_seed=None, max_steps=2_000_000, ref=None, src=None, monitors=True,
             lint=False):
    ev = Eval()
    ev.cfg = {'W': W, 'stack': stack, 'unchecked': unchecked, 'poison_seed': poison_seed,
              'style_seed': style_seed, 'lint': lint}
    ev.src = src if src is not None else render.program(
        prog, render.Style(style_seed) if style_seed is not None else render.PLAIN)
    ev.ref = ref if ref is not None else refmodel.run(prog, argv, W, checked=not unchecked,
                                                      stack_bytes=stack * W)
    ev.problems = []
    ev.res = None
    ev.mon = None
    ev.built = build(ev.src, W=W, stack=stack, unchecked=unchecked, argv=argv, lint=lint)
    b = ev.built
    if b.error_kind == 'rejected':
        ev.problems.append(('rejected-valid-program', b.error))
        return ev
    if b.error_kind == 'internal':
        ev.problems.append(('internal-error', b.error))
        return ev
    if b.error_kind == 'asm':
        ev.problems.append(('asm-error', b.error))
        return ev
    if b.error_kind == 'arg':
        ev.problems.append(('harness-argv', b.error))
        return ev
    ev.mon = Monitor(checked=not unchecked) if monitors else None
    ev.res = run_svm(b.prog, monitor=ev.mon, max_steps=max_steps, poison_seed=poison_seed)
    r = ev.res
    if r.outcome == DEFEAT:
        ev.problems.append(('halt', r.fault))
    elif r.outcome == MACHINE_FAULT:
        ev.problems.append(('machine-fault', r.fault))
    for cls, pc, msg in r.verdicts:
        ev.problems.append((cls, msg))
    return ev


def history_problem(ev):
    """History mismatch against the reference run (when the reference run is
    a verdict at all)."""
    if ev.res is None or ev.ref.outcome not in REF_OK:
        return None
    if ev.res.outcome in (DEFEAT, MACHINE_FAULT):
        return None          # already reported under its own class
    d = compare_with_ref(ev.ref, ev.res)
    return ('history', d) if d else None


def run_counters(ev):
    c = {'svm_runs': 0}
    if ev.res is not None:
        r = ev.res
        c.update(svm_runs=1, svm_steps=r.steps, choices=r.choices, rollbacks=r.rollbacks,
                 peephole=r.peephole_averted, sleep_ms=r.sleep_ms)
        if ev.mon is not None:
            c['monitor'] = {k: v for k, v in ev.mon.result_counts.items() if k != 'max_call_depth'}
    return c


def payload(prog, argv, ev, extra=None):
    p = {'prog': lang.to_json(prog), 'argv': list(argv), 'src': ev.src, 'cfg': dict(ev.cfg),
         'expected': {'outcome': ev.ref.outcome, 'error_kind': ev.ref.error_kind,
                      'history': hist_text(ev.ref.history, 2000)},
         'observed': None}
    if ev.res is not None:
        p['observed'] = {'outcome': ev.res.outcome, 'error_kind': ev.res.error_kind,
                         'history': hist_text(ev.res.history, 2000), 'fault': ev.res.fault,
                         'trace': ev.res.trace_hash}
    if extra:
        p.update(extra)
    return p


def sample_of(prog, argv, ev, limit=1200):
    s = {'source': ev.src if len(ev.src) <= limit else ev.src[:limit] + '\n...',
         'argv': list(argv), 'config': dict(ev.cfg), 'reference': ev.ref.outcome}
    if ev.res is not None:
        s['svm'] = {'outcome': ev.res.outcome, 'history': hist_text(ev.res.history, 300),
                    'steps': ev.res.steps}
    return s


def minimise(prog, argv, classes, runner, budget_s=15.0):
    """Shrink while `runner(prog, argv)` still reports a problem whose class is
    in `classes`.  runner returns the list of (cls, detail)."""
    def test(p, a):
        return any(c in classes for c, _ in runner(p, a))
    return shrink.shrink(prog, argv, test, budget_s=budget_s)


def min_stack(prog_src, argv, W, unchecked, lo=0, hi=GENEROUS, max_steps=2_000_000):
    """Smallest stack size (words) at which the run does not end in
    stack_overflow, by bisection (relies on C18's monotonicity, which the
    enumerating check C04 tests independently).  Returns None if even `hi`
    overflows or a build fails."""
    def ok(s):
        b = build(prog_src, W=W, stack=s, unchecked=unchecked, argv=argv)
        if b.prog is None:
            return None
        r = run_svm(b.prog, max_steps=max_steps)
        return not (r.outcome == ERROR and r.error_kind == 'stack_overflow')
    top = ok(hi)
    if not top:
        return None
    while lo < hi:
        mid = (lo + hi) // 2
        v = ok(mid)
        if v is None:
            return None
        if v:
            hi = mid
        else:
            lo = mid + 1
    return lo


_SHRUNK = 0
ALL_CLASSES = ('history', 'rejected-valid-program', 'internal-error', 'asm-error', 'halt',
               'machine-fault', 'mem', 'scope', 'ctrl')


def problems_of(prog, argv, cfg, classes=ALL_CLASSES, ref=None):
    ev = evaluate(prog, argv, ref=ref, **cfg)
    ps = list(ev.problems)
    h = history_problem(ev)
    if h:
        ps.append(h)
    return [(c, d) for c, d in ps if c in classes], ev


def new_result():
    return {'key': None, 'nontrivial': False, 'violations': [], 'counters': {'svm_runs': 0},
            'outcomes': {}, 'faults_fired': {}, 'probes': {}, 'max': {}, 'keys': []}


def add_counters(res, ev):
    from ..harness import merge_counts, merge_max
    merge_counts(res['counters'], run_counters(ev))
    res['outcomes'][f'ref:{ev.ref.outcome}'] = res['outcomes'].get(f'ref:{ev.ref.outcome}', 0) + 1
    if ev.res is not None:
        k = f'svm:{ev.res.outcome}' + (f'/{ev.res.error_kind}' if ev.res.error_kind else '')
        res['outcomes'][k] = res['outcomes'].get(k, 0) + 1
        merge_counts(res['probes'], ev.res.probes or {})
        merge_max(res['max'], {'svm_steps': ev.res.steps})
        res['counters'].setdefault('traces', []).append(ev.res.trace_hash)
        if ev.mon is not None:
            merge_max(res['max'], {'call_depth': ev.mon.result_counts['max_call_depth']})
        if ev.cfg.get('poison_seed') is not None:
            res['faults_fired']['poison'] = res['faults_fired'].get('poison', 0) + 1


def report(res, prog, argv, cfg, found, ev, classes=ALL_CLASSES, fingerprint=None,
           do_shrink=True, budget_s=15.0, extra=None):
    """Turn the first problem into a (minimised) violation record."""
    global _SHRUNK
    cls, detail = found[0]
    mp, ma, tests, e3, d3 = prog, argv, 0, ev, detail
    if do_shrink and _SHRUNK >= 2:
        do_shrink = False          # many violations: minimise only the first ones per worker
    if do_shrink:
        _SHRUNK += 1
        want = ev.ref.outcome

        def runner(p, a):
            f, e = problems_of(p, a, cfg, classes)
            return f if e.ref.outcome == want else []
        mp, ma, tests = minimise(prog, argv, {cls}, runner, budget_s=budget_s)
        f3, e3 = problems_of(mp, ma, cfg, classes)
        hit = [x for x in f3 if x[0] == cls]
        if hit:
            d3 = hit[0][1]
        else:
            mp, ma, e3, d3 = prog, argv, ev, detail
    ex = {'original_src': ev.src, 'original_argv': list(argv), 'shrink_tests': tests}
    if extra:
        ex.update(extra)
    res['violations'].append({'cls': cls, 'detail': d3, 'fingerprint': fingerprint,
                              'payload': payload(mp, ma, e3, ex), 'sample': sample_of(mp, ma, e3)})


def generic_replay(pl, classes=ALL_CLASSES, fingerprint=None):
    prog = lang.from_json(pl['prog'])
    found, _ = problems_of(prog, pl['argv'], pl['cfg'], classes)
    fp = fingerprint(pl) if callable(fingerprint) else fingerprint
    return [{'cls': c, 'detail': d, 'fingerprint': fp} for c, d in found]


LOCALES = ('utf-8', 'ascii', 'latin-1', 'cp1252')


def file_path_problem(src, W, stack=500, unchecked=False, stats=None):
    """The same source through the command-line tool (read from a file of a fake file system,
    SourceCode.from_file) must give byte for byte the assembly the API gives for the string
    (SourceCode.from_string) - in every process environment: the fake file system decodes a text-mode
    open() that names no encoding with the simulated locale encoding, as CPython does, and the build must
    not depend on it (a source with non-ASCII text is tried under four locales).  -> (class, detail) or None"""
    from ..clisim import FakeFS, run_cli
    from .. import hidc_api
    try:
        lines = hidc_api.compile_source(src, word_size=W, stack_size=stack, unchecked=unchecked, lint=False)
    except Exception:   # noqa: BLE001 - rejected or internal: judged elsewhere
        return None
    want = b''.join(l + b'\n' for l in lines)
    data = src.encode('utf-8')
    for loc in (LOCALES if any(b >= 0x80 for b in data) else LOCALES[:1]):
        fs = FakeFS({'in.hid': data}, locale_encoding=loc)
        args = ['in.hid', '-o', 'out.s', f'-m{8 * W}', f'-s{stack}'] + (['--unchecked'] if unchecked else [])
        r = run_cli(args, fs)
        got = fs.files.get('out.s')
        if stats is not None and loc != 'utf-8':
            stats['locale:' + loc] = stats.get('locale:' + loc, 0) + 1
        cls = 'file-path-differs' if loc == 'utf-8' else 'locale-changes-build'
        where = '' if loc == 'utf-8' else f' in a process whose locale encoding is {loc}'
        if r.exception is not None or r.status != 0 or got is None:
            return (cls, f'the API compiles this source but the command-line tool reading it from a file{where} does not: '
                         f'status {r.status}, {type(r.exception).__name__ if r.exception else r.stderr[-200:]!r}')
        if got != want:
            i = next((k for k, (a, b) in enumerate(zip(got, want)) if a != b), min(len(got), len(want)))
            lo = want.rfind(b'\n', 0, i) + 1
            return (cls, f'assembly from the file{where} differs from the assembly from the string at byte {i}: '
                         f'file {got[lo:lo + 80]!r} vs string {want[lo:lo + 80]!r}')
    return None
