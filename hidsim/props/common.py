"""Shared evaluation of one generated program under one configuration."""
import random

from .. import lang, render, refmodel, shrink
from ..monitors import Monitor
from ..runner import (build, run_svm, compare_with_ref, hist_text, digest, REF_OK)
from ..machine import WIN, ERROR, DIVERGE, DEFEAT, BUDGET, MACHINE_FAULT

GENEROUS = 4000          # words: "large enough for the run"


class Eval:
    """Result of evaluating one (program, argv, configuration)."""
    __slots__ = ('src', 'ref', 'built', 'res', 'mon', 'problems', 'cfg')


def evaluate(prog, argv, W, stack=GENEROUS, unchecked=False, poison_seed=None,
             style_seed=None, max_steps=2_000_000, ref=None, src=None, monitors=True,
             lint=False):
    ev = Eval()
    ev.cfg = {'W': W, 'stack': stack, 'unchecked': unchecked, 'poison_seed': poison_seed,
              'style_seed': style_seed, 'lint': lint}
    ev.src = src if src is not None else render.program(
        prog, render.Style(style_seed) if style_seed is not None else render.PLAIN)
    ev.ref = ref if ref is not None else refmodel.run(prog, argv, W, checked=not unchecked)
    ev.problems = []
    ev.res = None
    ev.mon = None
    ev.built = build(ev.src, W=W, stack=stack, unchecked=unchecked, argv=argv, lint=lint)
    b = ev.built
    if b.error_kind == 'rejected':
        ev.problems.append(('rejected-valid-program', b.error))
        return ev
    if b.error_kind == 'internal':
        ev.problems.append(('internal-error', b.error))
        return ev
    if b.error_kind == 'asm':
        ev.problems.append(('asm-error', b.error))
        return ev
    if b.error_kind == 'arg':
        ev.problems.append(('harness-argv', b.error))
        return ev
    ev.mon = Monitor(checked=not unchecked) if monitors else None
    ev.res = run_svm(b.prog, monitor=ev.mon, max_steps=max_steps, poison_seed=poison_seed)
    r = ev.res
    if r.outcome == DEFEAT:
        ev.problems.append(('halt', r.fault))
    elif r.outcome == MACHINE_FAULT:
        ev.problems.append(('machine-fault', r.fault))
    for cls, pc, msg in r.verdicts:
        ev.problems.append((cls, msg))
    return ev


def history_problem(ev):
    """History mismatch against the reference run (when the reference run is
    a verdict at all)."""
    if ev.res is None or ev.ref.outcome not in REF_OK:
        return None
    if ev.res.outcome in (DEFEAT, MACHINE_FAULT):
        return None          # already reported under its own class
    d = compare_with_ref(ev.ref, ev.res)
    return ('history', d) if d else None


def run_counters(ev):
    c = {'svm_runs': 0}
    if ev.res is not None:
        r = ev.res
        c.update(svm_runs=1, svm_steps=r.steps, choices=r.choices, rollbacks=r.rollbacks,
                 peephole=r.peephole_averted, sleep_ms=r.sleep_ms)
        if ev.mon is not None:
            c['monitor'] = {k: v for k, v in ev.mon.result_counts.items() if k != 'max_call_depth'}
    return c


def payload(prog, argv, ev, extra=None):
    p = {'prog': lang.to_json(prog), 'argv': list(argv), 'src': ev.src, 'cfg': dict(ev.cfg),
         'expected': {'outcome': ev.ref.outcome, 'error_kind': ev.ref.error_kind,
                      'history': hist_text(ev.ref.history, 2000)},
         'observed': None}
    if ev.res is not None:
        p['observed'] = {'outcome': ev.res.outcome, 'error_kind': ev.res.error_kind,
                         'history': hist_text(ev.res.history, 2000), 'fault': ev.res.fault,
                         'trace': ev.res.trace_hash}
    if extra:
        p.update(extra)
    return p


def sample_of(prog, argv, ev, limit=1200):
    s = {'source': ev.src if len(ev.src) <= limit else ev.src[:limit] + '\n...',
         'argv': list(argv), 'config': dict(ev.cfg), 'reference': ev.ref.outcome}
    if ev.res is not None:
        s['svm'] = {'outcome': ev.res.outcome, 'history': hist_text(ev.res.history, 300),
                    'steps': ev.res.steps}
    return s


def minimise(prog, argv, classes, runner, budget_s=15.0):
    """Shrink while `runner(prog, argv)` still reports a problem whose class is
    in `classes`.  runner returns the list of (cls, detail)."""
    def test(p, a):
        return any(c in classes for c, _ in runner(p, a))
    return shrink.shrink(prog, argv, test, budget_s=budget_s)


def min_stack(prog_src, argv, W, unchecked, lo=0, hi=GENEROUS, max_steps=2_000_000):
    """Smallest stack size (words) at which the run does not end in
    stack_overflow, by bisection (relies on C18's monotonicity, which the
    enumerating check C04 tests independently).  Returns None if even `hi`
    overflows or a build fails."""
    def ok(s):
        b = build(prog_src, W=W, stack=s, unchecked=unchecked, argv=argv)
        if b.prog is None:
            return None
        r = run_svm(b.prog, max_steps=max_steps)
        return not (r.outcome == ERROR and r.error_kind == 'stack_overflow')
    top = ok(hi)
    if not top:
        return None
    while lo < hi:
        mid = (lo + hi) // 2
        v = ok(mid)
        if v is None:
            return None
        if v:
            hi = mid
        else:
            lo = mid + 1
    return lo
