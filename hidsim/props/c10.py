"""C10 - the compiler is total: every input yields assembly or a located diagnostic."""
import errno
import os
import re
import shutil
import subprocess
import sys
import tempfile

from .. import gen, gen_tt, render, hidc_api, lang
from ..asm import assemble, AsmError, ArgError
from ..clisim import FakeFS, FaultPlan, run_cli
from ..harness import case_rng
from ..runner import digest
from . import common, progs

ID = 'C10'
LEVEL = 'fault_enumeration'
TIERS = {
    'quick': {'cases': 2601 + 1800, 'wall': 110, 'chunk': 12},
    'thorough': {'cases': 2601 + 60000, 'wall': 1500, 'chunk': 24},
}
RULE = ('cases 0..2600: the SINGLE-DAMAGE MATRIX - every alien expression (ill-typed, empty-valued, undefined, not '
        'constant, huge) alone in each of 24 small host positions (argument, statement, declaration, condition, array '
        'length, index, try body, stop handler, defeat function, return, operand, ??, !truth_is_defeat, global '
        'initialiser used / unused / const / used in a function, global array length and element, element store, for '
        'step) and every bad statement alone in 9 host contexts, so that one error that slips through the type checker '
        'reaches the code generator unmasked, followed by 54 fixed valid programs that use defeat in exactly one '
        'unusual place; every 10th with I/O fault enumeration. Further cases: one seeded source text - random Unicode text, random bytes, token soup, a generated valid '
        'program (sequential or time travel), that program mutated at token level (delete / insert / swap / '
        'duplicate / replace tokens), truncated at a token boundary (end-of-file spans), ill-typed by type '
        'and flavour substitution, or ill-typed by tree surgery (alien expressions in place of well-typed ones, '
        'assignments to string elements / constants / array variables, empty values used as values, wrong '
        'arity, misplaced return/break/try/preempt), or a small valid-looking program around one token of '
        'unusual length (integer literals of 1..9000 digits in four bases, \\u{...}/\\x escapes with many digits, long '
        'names/strings/comments, or many siblings at one level), or a FLAT CHAIN without textual nesting (1 + 1 + ... with '
        '50..3000 operators, and-chains, else-if chains: judged under the interpreter\'s default recursion limit; the '
        'RecursionError they end in beyond ~990 operators is known finding F15); textual nesting depth <= 40 - and one seeded option vector (-m in {0,8,12,16,24,32,'
        '64,-8,14400,80000}, -s in {-1,0,1,20,500,10^6,10^9}, --unchecked, --lint, with/without -o). API oracle: only a '
        'CompilerError may escape parse -> evaluate -> CodeGen -> gen_lines, get_info() renders and every span '
        'lies inside the source. CLI oracle (hidc.__main__.main() in-process on a fake file system): failure = '
        'non-zero status, diagnostic on stderr, no traceback, no output file; success = status 0 and a file '
        'byte-identical to the API result that the strict SVM assembler accepts. I/O FAULT ENUMERATION: the '
        'fault-free invocation records its file-system calls (open-r, raw reads, open-w, raw writes, close); '
        'the invocation is repeated with an OSError injected at every call index x {EIO, ENOSPC, EACCES, '
        'EMFILE}, plus variants with a missing input, a directory as input/output and undecodable input bytes. '
        'Under an injected write/close failure a partial output file is tolerated, a zero exit status or a '
        'traceback is not. Without -o the run is repeated with a standard output that is full (OSError) and one '
        'that cannot encode the message (UnicodeEncodeError): no traceback, and no failure status with the file left. Every 40th case is also run through a real `python -m hidc` subprocess in a scratch '
        'directory to show that the fake and the real file system agree. distinct = hash(source, options); '
        'non-trivial = the CLI ran and at least one I/O fault position was enumerated or the input was not a '
        'plain valid program.')
ASSUMPTIONS = ['the fake file system reproduces io.TextIOWrapper/BufferedWriter semantics by wrapping fake raw streams in the real io classes',
               'source files are UTF-8 whatever the locale of the compiling process (README: strings are UTF-8 byte strings; F21)',
               'inputs keep textual nesting depth <= 40; deeper nesting (Python recursion limit) is outside the property; flat chains are inside it (F15)']

TOKEN_RE = re.compile(r'''"(?:\\.|[^"\\])*"|'(?:\\.|[^'\\])*'|//[^\n]*|[@!]?[A-Za-z_]\w*|\d\w*|==|!=|<=|>=|\?\?|[-+*/%]=|\S''')
KEYWORDS = ['int', 'byte', 'bool', 'string', 'empty', 'const', 'if', 'else', 'while', 'for', 'try', 'undo',
            'stop', 'preempt', 'return', 'break', 'continue', 'and', 'or', 'not', 'is', 'true', 'false']
SYMBOLS = list('(){}[];,.=+-*/%<>') + ['==', '!=', '<=', '>=', '??', '+=', '-=', '*=', '/=', '%=']
IDENTS = ['x', 'y', 'arr', '@is_you', '@f', '!g', 'h', 'write', 'writeln', '!is_defeat', '!truth_is_defeat',
          'all_is_win', 'length', 'sleep']
LITS = ['007', '00', '0_9', '0010', '0', '1', '42', '0xFF', '0b101', '0o17', '1_000', '32768', '99999999999999999999', "'a'", "'\\n'",
        "'\\x41'", '"s"', '""', '"\\u{1F30E}"', '"\\xff"', "'\\''"]


def tokens_of(text):
    return TOKEN_RE.findall(text)


def soup(rnd, n):
    pool = KEYWORDS + SYMBOLS + IDENTS + LITS
    return ' '.join(rnd.choice(pool) for _ in range(n))


def random_text(rnd):
    n = rnd.randrange(0, 200)
    c = rnd.random()
    if c < 0.3:
        return ''.join(chr(rnd.choice((rnd.randrange(32, 127), rnd.randrange(0, 0x3000), rnd.randrange(0x1F300, 0x1F700),
                                       10, 9, 34, 39, 92))) for _ in range(n)).replace('\ud800', '?')
    if c < 0.5:
        return ''.join(rnd.choice('\n\t "\'\\/{}()[];@!?=<>+-*%0123456789abcxyz_.,') for _ in range(n))
    return soup(rnd, rnd.randrange(1, 80))


def nested(rnd):
    d = rnd.randrange(1, 40)
    k = rnd.randrange(4)
    if k == 0:
        e = '(' * d + '1' + ')' * d
        return 'empty @is_you() { write(' + e + '); }'
    if k == 1:
        return 'empty @is_you() ' + '{ ' * d + 'write(1);' + ' }' * d
    if k == 2:
        return 'empty @is_you() { write(' + '-' * d + ' 1); write(' + 'not ' * d + 'true); }'
    return 'empty @is_you() { int[] a = [1]; write(a' + '[a' * d + '[0]' + ']' * d + '); }'


def long_token(rnd):
    """Valid-looking programs around one token of unusual length: integer literals of thousands of
    digits in every base, \\u{...} escapes with many hex digits, long names, strings and comments."""
    n = rnd.choice((1, 5, 19, 20, 40, 300, 4299, 4300, 4301, 5000, 9000))
    k = rnd.randrange(16)
    if k >= 12:
        # wide rather than long: many siblings at one nesting level
        m = rnd.choice((1, 40, 300, 700))
        if k == 12:
            return 'empty @is_you(int q) {\n' + ''.join(f'write(q + {i % 50});\n' for i in range(m)) + '}\n'
        if k == 13:
            return ''.join(f'int f{i}(int a) {{ return a + {i % 9}; }}\n' for i in range(m)) + \
                'empty @is_you(int q) { ' + ''.join(f'write(f{i}(q));' for i in range(0, m, 7)) + ' }\n'
        if k == 14:
            ps = ', '.join(f'int a{i}' for i in range(m))
            return f'int f({ps}) {{ return a0 + a{m - 1}; }}\nempty @is_you() {{ write(f(' + ', '.join(str(i % 10) for i in range(m)) + ')); }\n'
        el = rnd.choice(('int', 'byte', 'bool'))
        items = ', '.join({'int': str(i * 7 % 1000), 'byte': str(i % 256), 'bool': ('true', 'false')[i % 3 == 0]}[el] for i in range(m * 6))
        return f'const {el}[] T = [{items}];\nempty @is_you(int q) {{ {el}[] t = [{items}]; write(T[q % T.length]); write(t.length); }}\n'
    d = lambda alphabet: ''.join(rnd.choice(alphabet) for _ in range(n))   # noqa: E731
    if k == 0:
        tok = rnd.choice('123456789') + d('0123456789')
    elif k == 1:
        tok = '0x' + d('0123456789abcdefABCDEF')
    elif k == 2:
        tok = '0o' + d('01234567')
    elif k == 3:
        tok = '0b' + d('01')
    elif k == 4:
        tok = '1' + '_0' * n
    elif k == 5:
        tok = "'\\u{" + d('0123456789abcdefABCDEF') + "}'"
    elif k == 6:
        tok = '"a\\u{' + rnd.choice(('0', 'F', '1', '')) + d('0F') + '}b"'
    elif k == 7:
        tok = '"' + d('abc xyz\t') + '"'
    elif k == 8:
        tok = 'v' + d('abcXYZ_019')
        return f'empty @is_you() {{ int {tok} = 1; write({tok}); }}'
    elif k == 9:
        return f'// {d("abc /*")}\nempty @is_you() {{ write(1); }} // {d("xyz")}'
    elif k == 10:
        tok = '0' * n + rnd.choice(('', '7', '08', 'x1', '_'))
    else:
        tok = "'\\x" + d('0123456789abcdef') + "'"
    shape = rnd.randrange(7)
    if shape == 0:
        return f'empty @is_you() {{ write({tok}); }}'
    if shape == 1:
        return f'const int G = {tok};\nempty @is_you() {{ writeln(G % 7); }}'
    if shape == 2:
        return f'empty @is_you() {{ int a[{tok}]; a[0] = 1; }}'
    if shape == 3:
        return f'empty @is_you() {{ int[] a = [1, 2]; write(a[{tok}]); }}'
    if shape == 4:
        return f'empty @is_you(int n) {{ if (n < {tok}) {{ write(n / {tok}); }} }}'
    if shape == 5:
        return f'empty @is_you() {{ byte b = {tok} is byte; write(b); write(-{tok} == {tok}); }}'
    return f'int g = {tok} * {tok};\nempty @is_you() {{ write(g); sleep({tok}); }}'


def flat_chain(rnd):
    """No nesting in the text, but a deep tree: long left-associative operator chains and else-if chains."""
    n = rnd.choice((50, 300, 1500, 3000))
    k = rnd.randrange(5)
    if k == 0:
        return 'empty @is_you(int q) { write(' + ' + '.join(['q'] + ['1'] * n) + '); }'
    if k == 1:
        return 'empty @is_you(int q) { write(' + ' - '.join(['1'] * n) + '); }'
    if k == 2:
        return 'empty @is_you(int q) { if (' + ' and '.join(['q > 0'] * n) + ') { write(1); } }'
    if k == 3:
        return 'empty @is_you(int q) {\n' + ''.join(f'if (q == {i}) {{ write({i}); }} else ' for i in range(n // 3)) + '{ write(0); }\n}'
    return 'empty @is_you(int q) { int[] a = [' + ' * '.join(['q'] * n) + ']; write(a[0]); }'


FLAT_FP = 'F15-flat-chain-recursion'


def mutate(rnd, toks):
    toks = list(toks)
    for _ in range(rnd.randrange(1, 4)):
        if not toks:
            break
        c = rnd.randrange(7)
        i = rnd.randrange(len(toks))
        if c == 0:
            del toks[i]
        elif c == 1:
            toks.insert(i, rnd.choice(KEYWORDS + SYMBOLS + IDENTS + LITS))
        elif c == 2:
            j = rnd.randrange(len(toks))
            toks[i], toks[j] = toks[j], toks[i]
        elif c == 3:
            toks.insert(i, toks[i])
        elif c == 4:
            toks[i] = rnd.choice(KEYWORDS + SYMBOLS + IDENTS + LITS)
        elif c == 5:
            # type / flavour substitution -> ill-typed or ill-flavoured
            for j, t in enumerate(toks):
                if t in ('int', 'byte', 'bool', 'string') and rnd.random() < 0.3:
                    toks[j] = rnd.choice(('int', 'byte', 'bool', 'string', 'empty'))
                elif t[:1] in '@!' and rnd.random() < 0.2:
                    toks[j] = rnd.choice('@!') + t[1:] if rnd.random() < 0.7 else t[1:]
        else:
            del toks[i:i + rnd.randrange(1, 6)]
    return toks


def make_source(rnd):
    """-> (kind, text or bytes)"""
    c = rnd.random()
    if c < 0.08:
        return 'text', random_text(rnd)
    if c < 0.12:
        return 'bytes', bytes(rnd.randrange(256) for _ in range(rnd.randrange(0, 120)))
    if c < 0.16:
        return 'nested', nested(rnd)
    if c < 0.20:
        return 'longtoken', long_token(rnd)
    if c < 0.215:
        return 'flatchain', flat_chain(rnd)
    k = rnd.random()
    if k < 0.15:
        from .c16 import G16
        p = G16(rnd).build()
    elif k < 0.25:
        from .c08 import G8
        p = G8(rnd, 2).build()
    elif k < 0.33:
        from ..gen_tt import rare_shape_program
        p, _ = rare_shape_program(rnd)
    else:
        p, argv, W, kind = progs.draw(rnd)
    if c < 0.46:
        try:
            return 'illtyped', render.program(illtype(rnd, p))
        except Exception:   # noqa: BLE001 - unrenderable damage: fall back to the valid text
            pass
    src = render.program(p, render.Style(rnd.randrange(1 << 30)) if rnd.random() < 0.5 else render.PLAIN)
    if c < 0.56:
        return 'valid', src
    toks = tokens_of(src)
    if c < 0.72:
        return 'truncated', ' '.join(toks[:rnd.randrange(len(toks) + 1)])
    if c < 0.76:
        # cut in the middle of a token / literal
        return 'cut', src[:rnd.randrange(len(src) + 1)]
    return 'mutated', ' '.join(mutate(rnd, toks))


ALIENS = [
    ('int', 7), ('bool', True), ('str', 'zz'), ('chr', 65), ('arr', ()), ('arr', (('int', 1), ('int', 2))),
    ('arr', (('arr', (('int', 1),)),)), ('call', 'nothing', ()), ('arr', (('call', 'nothing', ()),)),
    ('call', 'undefined_fn', (('int', 1),)), ('call', 'write', (('int', 1),)), ('call', '!is_defeat', ()),
    ('call', '@is_you', ()), ('len', ('int', 3)), ('len', ('arr', (('call', 'nothing', ()),))),
    ('idx', ('int', 3), ('int', 0)), ('idx', ('str', 'ab'), ('bool', True)), ('idx', ('str', 'ab'), ('str', 'x')),
    ('is', ('str', 'ab'), 'int'), ('is', ('int', 1), 'string'), ('is', ('arr', (('int', 1),)), 'int'),
    ('is', ('str', 'ab'), ('arrt', 'int', True)), ('un', '-', ('str', 'ab')), ('un', '-', ('bool', True)),
    ('bin', '+', ('str', 'a'), ('int', 1)), ('bin', '<', ('bool', True), ('bool', False)),
    ('bin', '==', ('str', 'a'), ('str', 'a')), ('bin', '==', ('bool', True), ('int', 1)),
    ('bin', '/', ('int', 1), ('int', 0)), ('bin', '%', ('int', 1), ('bin', '-', ('int', 2), ('int', 2))),
    ('spec', ('int', 1), ('str', 'a')), ('spec', ('str', 'a'), ('str', 'b')), ('var', 'no_such_variable'),
    ('idx', ('arr', ()), ('int', 0)), ('idx', ('arr', (('call', 'nothing', ()),)), ('int', 0)),
    ('spec', ('call', 'nothing', ()), ('call', 'nothing', ())), ('spec', ('call', 'nothing', ()), ('int', 1)),
    ('spec', ('int', 1), ('call', 'nothing', ())), ('bin', '+', ('call', 'nothing', ()), ('call', 'nothing', ())),
    ('bin', '==', ('call', 'nothing', ()), ('call', 'nothing', ())), ('bin', 'and', ('call', 'nothing', ()), ('bool', True)),
    ('un', '-', ('call', 'nothing', ())), ('un', 'not', ('call', 'nothing', ())), ('is', ('call', 'nothing', ()), 'int'),
    ('is', ('call', 'nothing', ()), 'bool'), ('idx', ('call', 'nothing', ()), ('int', 0)), ('len', ('call', 'nothing', ())),
    ('idx', ('arr', (('int', 1),)), ('call', 'nothing', ())), ('call', 'write', (('call', 'nothing', ()),)),
    ('int', 10 ** 30), ('un', 'not', ('arr', ())), ('bin', 'and', ('str', ''), ('arr', ())),
]
BAD_STMTS = [
    ('set', ('idx', ('str', 'ab'), ('int', 0)), ('int', 65)),
    ('aug', '+', ('idx', ('str', 'ab'), ('int', 0)), ('int', 1)),
    ('decl', 'string', 'zs', ('str', 'ab'), False), ('set', ('idx', ('var', 'zs'), ('int', 0)), ('chr', 65)),
    ('aug', '*', ('idx', ('var', 'zs'), ('int', 1)), ('int', 2)),
    ('decl', 'int', 'zc', ('int', 1), True), ('set', ('var', 'zc'), ('int', 2)), ('aug', '+', ('var', 'zc'), ('int', 2)),
    ('decl', ('arrt', 'int', True), 'za', ('arr', (('int', 1),)), True), ('set', ('idx', ('var', 'za'), ('int', 0)), ('int', 2)),
    ('set', ('var', 'za'), ('arr', (('int', 3),))), ('decl', ('arrt', 'int', False), 'zb', ('var', 'za'), True),
    ('decl', 'bool', 'zf', ('bool', True), False), ('aug', '+', ('var', 'zf'), ('int', 1)),
    ('decl', 'string', 'zt', ('str', 'a'), False), ('aug', '+', ('var', 'zt'), ('str', 'b')),
    ('decl', 'int', 'zn', ('call', 'nothing', ()), False), ('decl', 'byte', 'zy', ('var', 'zn'), False),
    ('dyn', 'int', 'zd', ('str', 'n')), ('dyn', 'int', 'ze', ('bool', True)),
    ('decl', ('arrt', 'int', False), 'zg', ('arr', (('str', 'a'),)), True),
    ('decl', ('arrt', 'bool', False), 'zh', ('arr', (('int', 2),)), True),
    ('ret', ('int', 1)), ('ret', None), ('break',), ('cont',),
    ('expr', ('spec', ('call', 'nothing', ()), ('call', 'nothing', ()))), ('ret', ('call', 'nothing', ())),
    ('set', ('call', 'nothing', ()), ('int', 1)), ('decl', 'bool', 'zv', ('call', 'nothing', ()), False),
    ('if', ('spec', ('call', 'nothing', ()), ('call', 'nothing', ())), ('block', ()), None),
    ('dyn', 'int', 'zw', ('call', 'nothing', ())), ('expr', ('call', '!truth_is_defeat', (('call', 'nothing', ()),))),
    ('expr', ('call', 'nothing', (('int', 1),))), ('expr', ('call', 'write', ())),
    ('expr', ('call', 'write', (('arr', (('int', 1),)),))), ('expr', ('call', 'sleep', (('str', 'x'),))),
    ('preempt', ('block', ())), ('try', ('block', ()), 'undo', ('block', ())),
    ('if', ('call', 'nothing', ()), ('block', ()), None), ('while', ('str', 'x'), ('block', (('break',),))),
    ('for', ('decl', 'int', 'zi', ('int', 0), False), ('var', 'zi'), ('set', ('var', 'zi'), ('str', 's')), ('block', (('break',),))),
]


def illtype(rnd, prog):
    """Type-directed damage on a generated program: alien expressions in place of well-typed ones,
    assignments to things that cannot be assigned, misuse of empty values, arity and flavour errors."""
    from .. import shrink
    prog = ('prog', prog[1], (('func', 'empty', 'nothing', (), ('block', ())),) + prog[2])
    if rnd.random() < 0.2:
        # damage at program level: entry point and global initialisers
        funcs = list(prog[2])
        k = next((i for i, f in enumerate(funcs) if f[2] == '@is_you'), None)
        c = rnd.randrange(10)
        glob = list(prog[1])
        if k is not None and c == 0:
            funcs[k] = ('func',) + (funcs[k][1], '@main') + funcs[k][3:]
        elif k is not None and c == 1:
            funcs.append(('func', 'empty', '@is_you', (('int', 'dup'),), ('block', ())))
        elif k is not None and c == 2:
            funcs[k] = ('func', 'int', '@is_you', funcs[k][3], ('block', funcs[k][4][1] + (('ret', ('int', 0)),)))
        elif k is not None and c == 3:
            extra = rnd.choice([(('bool', 'zb'),), ((('arrt', 'bool', False), 'zb'),), ((('arrt', 'string', False), 'zs'),),
                                ((('arrt', 'int', False), 'za'), (('arrt', 'byte', True), 'zc'))])
            funcs[k] = ('func', funcs[k][1], funcs[k][2], tuple(p for p in funcs[k][3] if p[0] in ('int', 'byte', 'string')) + extra, funcs[k][4])
        elif c == 4:
            glob.append(('decl', 'int', 'zg', ('call', 'nothing', ()), False))
        elif c == 5:
            glob.append(('decl', 'int', 'zg', ('bin', '+', ('call', 'write', (('int', 1),)), ('int', 1)), False))
        elif c == 6:
            glob.append(('dyn', 'int', 'zbig', ('int', rnd.choice((40000, 10 ** 9, 2 ** 62, -1)))))
        elif c == 7:
            glob += [('decl', 'int', 'zn', ('int', 3), False), ('dyn', 'byte', 'zv', ('bin', '*', ('var', 'zn'), ('int', 2)))]
        elif c == 8:
            glob.append(('decl', ('arrt', 'int', False), 'zarr', ('arr', (('int', 1), ('call', 'nothing', ()))), True))
        else:
            glob += [('decl', 'int', 'zd', ('int', 1), False), ('decl', 'int', 'zd', ('int', 2), False)]
        prog = ('prog', tuple(glob), tuple(funcs))
    for _ in range(rnd.randrange(0 if prog[1] else 1, 4)):
        if rnd.random() < 0.5:
            paths = list(shrink._expr_paths(prog))
            if paths:
                path, _ = rnd.choice(paths)
                prog = shrink._set(prog, path, rnd.choice(ALIENS))
                continue
        blocks = list(shrink._paths_blocks(prog))
        if blocks:
            path = rnd.choice(blocks)
            blk = shrink._get(prog, path)
            pos = rnd.randrange(len(blk[1]) + 1)
            k = rnd.randrange(len(BAD_STMTS))
            new = BAD_STMTS[max(0, k - 1):k + 1] if rnd.random() < 0.5 else BAD_STMTS[k:k + 1]
            prog = shrink._set(prog, path, ('block', blk[1][:pos] + tuple(new) + blk[1][pos:]))
    return prog


# ---- single-damage matrix: every alien expression / bad statement alone in every small host -----------------
# Random damage rarely leaves exactly one error in reachable code of the right context; the matrix does, so that an
# error that slips through the type checker reaches the code generator instead of being masked by another one.
MORE_EXPRS = [
    ('idx', ('arr', (('int', 10), ('int', 20), ('int', 30))), ('int', 1)), ('call', 'seven', ()),
    ('len', ('arr', (('int', 1), ('int', 2)))), ('spec', ('int', 1), ('int', 2)), ('idx', ('str', 'ab'), ('int', 0)),
    ('var', 'later'), ('bin', '+', ('var', 'later'), ('int', 1)), ('int', 40000), ('int', 10 ** 9), ('int', 2 ** 62), ('int', -1),
    ('bin', '*', ('int', 70000), ('int', 70000)), ('un', '-', ('int', 1)), ('bool', True), ('chr', 200), ('str', 'text'),
    ('is', ('int', 300), 'byte'), ('bin', '/', ('int', 7), ('int', 2)), ('bin', '<', ('int', 1), ('int', 2)),
    ('call', '!boom', ()), ('call', '@you_fn', ()), ('arr', (('str', 'a'), ('str', 'b'))), ('arr', (('bool', True),)),
]
_NOTHING = ('func', 'empty', 'nothing', (), ('block', ()))
_SEVEN = ('func', 'int', 'seven', (), ('block', (('ret', ('int', 7)),)))
_BOOM = ('func', 'int', '!boom', (), ('block', (('expr', ('call', '!truth_is_defeat', (('bin', '>', ('var', 'later'), ('int', 3)),))), ('ret', ('int', 1)))))
_YOUFN = ('func', 'int', '@you_fn', (), ('block', (('ret', ('int', 2)),)))
_LATER = ('decl', 'int', 'later', ('int', 5), False)
N_MATRIX = 2601     # = len(matrix_jobs()), asserted in case()
_W1 = ('expr', ('call', 'write', (('int', 1),)))


def _you(*stmts, glob=(), funcs=()):
    return ('prog', tuple(glob) + (_LATER,), (_NOTHING, _SEVEN, _BOOM, _YOUFN) + tuple(funcs) +
            (('func', 'empty', '@is_you', (), ('block', tuple(stmts))),))


E_HOSTS = {
    'write': lambda e: _you(('expr', ('call', 'write', (e,)))),
    'stmt': lambda e: _you(('expr', e), _W1),
    'decl': lambda e: _you(('decl', 'int', 'z', e, False), ('expr', ('call', 'write', (('var', 'z'),)))),
    'if': lambda e: _you(('if', e, ('block', (_W1,)), None)),
    'while': lambda e: _you(('while', e, ('block', (('break',),))), _W1),
    'dynlen': lambda e: _you(('dyn', 'int', 'a', e), ('expr', ('call', 'write', (('len', ('var', 'a')),)))),
    'index': lambda e: _you(('decl', ('arrt', 'int', False), 'a', ('arr', (('int', 1), ('int', 2), ('int', 3))), True),
                            ('expr', ('call', 'write', (('idx', ('var', 'a'), e),)))),
    'in_try': lambda e: _you(('try', ('block', (('expr', e), ('expr', ('call', '!is_defeat', ())))), 'undo', ('block', (_W1,)))),
    'in_stop': lambda e: _you(('try', ('block', (('expr', ('call', '!is_defeat', ())),)), 'stop', ('block', (('expr', e), _W1)))),
    'in_defeat_fn': lambda e: _you(('try', ('block', (('expr', ('call', '!d', ())),)), 'stop', ('block', ())),
                                   funcs=(('func', 'empty', '!d', (), ('block', (('expr', e), ('expr', ('call', '!is_defeat', ()))))),)),
    'return': lambda e: _you(('expr', ('call', 'write', (('call', 'f', ()),))),
                             funcs=(('func', 'int', 'f', (), ('block', (('ret', e),))),)),
    'arg': lambda e: _you(('expr', ('call', 'g', (e, ('int', 1)))),
                          funcs=(('func', 'empty', 'g', (('int', 'p'), ('int', 'q')), ('block', (('expr', ('call', 'write', (('var', 'p'),))),))),)),
    'operand': lambda e: _you(('expr', ('call', 'write', (('bin', '+', ('int', 1), e),)))),
    'spec_left': lambda e: _you(('expr', ('call', 'write', (('spec', e, ('int', 2)),)))),
    'truth': lambda e: _you(('try', ('block', (('expr', ('call', '!truth_is_defeat', (e,))),)), 'undo', ('block', ()))),
    'global': lambda e: _you(('expr', ('call', 'write', (('var', 'g'),))), glob=(('decl', 'int', 'g', e, False),)),
    'global_unused': lambda e: _you(_W1, glob=(('decl', 'int', 'g', e, False),)),
    'global_const': lambda e: _you(('expr', ('call', 'write', (('bin', '+', ('var', 'g'), ('int', 1)),))), glob=(('decl', 'int', 'g', e, True),)),
    'global_in_fn': lambda e: _you(('expr', ('call', 'write', (('call', 'f', ()),))), glob=(('decl', 'int', 'g', e, False),),
                                   funcs=(('func', 'int', 'f', (), ('block', (('ret', ('var', 'g')),))),)),
    'global_len': lambda e: _you(('expr', ('call', 'write', (('len', ('var', 'ga')),))), glob=(('dyn', 'int', 'ga', e),)),
    'global_blen': lambda e: _you(('expr', ('call', 'write', (('len', ('var', 'ga')),))), glob=(('dyn', 'bool', 'ga', e),)),
    'global_arr': lambda e: _you(('expr', ('call', 'write', (('idx', ('var', 'ga'), ('int', 0)),))),
                                 glob=(('decl', ('arrt', 'int', False), 'ga', ('arr', (('int', 1), e)), True),)),
    'elem_set': lambda e: _you(('decl', ('arrt', 'int', False), 'a', ('arr', (('int', 1), ('int', 2))), True),
                               ('set', ('idx', ('var', 'a'), ('int', 0)), e), _W1),
    'for_step': lambda e: _you(('for', ('decl', 'int', 'i', ('int', 0), False), ('bin', '<', ('var', 'i'), ('int', 2)),
                                ('expr', e), ('block', (('aug', '+', ('var', 'i'), ('int', 1)),)))),
}
S_HOSTS = {
    'you': lambda ss: _you(*ss, _W1),
    'you_tail': lambda ss: _you(_W1, *ss),
    'try': lambda ss: _you(('try', ('block', tuple(ss) + (('expr', ('call', '!is_defeat', ())),)), 'undo', ('block', (_W1,)))),
    'handler': lambda ss: _you(('try', ('block', (('expr', ('call', '!is_defeat', ())),)), 'stop', ('block', tuple(ss)))),
    'defeat_fn': lambda ss: _you(('try', ('block', (('expr', ('call', '!d', ())),)), 'undo', ('block', ())),
                                 funcs=(('func', 'empty', '!d', (), ('block', tuple(ss))),)),
    'plain_fn': lambda ss: _you(('expr', ('call', 'h', ())), funcs=(('func', 'empty', 'h', (), ('block', tuple(ss))),)),
    'int_fn': lambda ss: _you(('expr', ('call', 'write', (('call', 'h', ()),))),
                              funcs=(('func', 'int', 'h', (), ('block', tuple(ss) + (('ret', ('int', 1)),))),)),
    'loop': lambda ss: _you(('for', ('decl', 'int', 'i', ('int', 0), False), ('bin', '<', ('var', 'i'), ('int', 2)),
                             ('aug', '+', ('var', 'i'), ('int', 1)), ('block', tuple(ss)))),
    'if': lambda ss: _you(('if', ('bin', '<', ('var', 'later'), ('int', 9)), ('block', tuple(ss)), ('block', (_W1,)))),
}


def matrix_jobs():
    jobs = []
    for hn in E_HOSTS:
        for k in range(len(ALIENS) + len(MORE_EXPRS)):
            jobs.append(('e', hn, k))
    for hn in S_HOSTS:
        for k in range(len(BAD_STMTS)):
            jobs.append(('s', hn, k, 1))
            if k:
                jobs.append(('s', hn, k, 2))
    # valid programs in which defeat is used in exactly one unusual place (whole-program conditions of the code
    # generator: no try/stop anywhere, defeat only in a loop clause, code-generation order ...), fixed seeds
    for k in range(54):
        jobs.append(('r', k))
    return jobs


MATRIX = None


def matrix_source(job):
    if job[0] == 'r':
        import random
        from ..gen_tt import rare_shape_program
        p, _ = rare_shape_program(random.Random(7000 + job[1]))
        return render.program(p)
    if job[0] == 'e':
        e = (ALIENS + MORE_EXPRS)[job[2]]
        p = E_HOSTS[job[1]](e)
    else:
        k = job[2]
        p = S_HOSTS[job[1]](BAD_STMTS[k:k + 1] if job[3] == 1 else BAD_STMTS[k - 1:k + 1])
    return render.program(p)


M_OPTS = (0, 8, 12, 16, 24, 32, 64, -8, 16, 24, 32, 14400, 80000)
S_OPTS = (-1, 0, 1, 20, 500, 10 ** 6, 10 ** 9)


def make_options(rnd):
    opts = {}
    if rnd.random() < 0.5:
        opts['m'] = rnd.choice(M_OPTS)
    if rnd.random() < 0.5:
        opts['s'] = rnd.choice(S_OPTS)
    opts['unchecked'] = rnd.random() < 0.3
    opts['lint'] = rnd.random() < 0.3
    opts['o'] = rnd.random() < 0.7
    return opts


def cli_args(opts, inp='in.hid', out='out.s'):
    a = [inp]
    if opts.get('o'):
        a += ['-o', out]
    if 'm' in opts:
        a += [f'-m{opts["m"]}'] if opts['m'] >= 0 else ['-m', str(opts['m'])]
    if 's' in opts:
        a += [f'-s{opts["s"]}'] if opts['s'] >= 0 else ['-s', str(opts['s'])]
    if opts.get('unchecked'):
        a.append('--unchecked')
    if opts.get('lint'):
        a.append('--lint')
    return a


def api_oracle(text, opts):
    """-> (violations, assembly bytes or None, accepted?)"""
    out = []
    m = opts.get('m', 16)
    s = opts.get('s', 500)
    if m % 8 != 0 or m < 0:
        return out, None, None           # rejected by the option parser before the API is reached
    source = hidc_api.SourceCode.from_string(text, filename='in.hid')
    try:
        env = hidc_api.Environment.empty(unreachable_error=bool(opts.get('lint')))
        hidc_api.parse(source).evaluate(env)
        cg = hidc_api.CodeGen(env, m // 8, s, bool(opts.get('unchecked')))
        lines = list(cg.gen_lines())
        return out, b''.join(l + b'\n' for l in lines), True
    except hidc_api.CompilerError as e:
        try:
            info = e.get_info(source)
            if not isinstance(info, str) or not info:
                out.append(('diagnostic-unrenderable', f'get_info returned {info!r}'))
        except Exception as e2:   # noqa: BLE001
            out.append(('diagnostic-unrenderable', f'{type(e).__name__}: get_info raised {type(e2).__name__}: {e2}'))
        nlines = len(source.lines)
        for span in getattr(e, 'context', ()):
            for cur in (span.start, span.end):
                if not (0 <= cur.line < max(nlines, 1)) or not (0 <= cur.col <= len(source[cur.line]) if nlines else cur.col == 0):
                    out.append(('span-outside-source', f'{type(e).__name__}: {e}: position {cur} not inside a source of {nlines} lines'))
                    break
        return out, None, False
    except RecursionError:
        out.append(('internal-error', 'RecursionError escaped parse/evaluate/CodeGen/gen_lines'))
    except Exception as e:   # noqa: BLE001
        out.append(('internal-error', f'{type(e).__name__}: {e} escaped parse/evaluate/CodeGen/gen_lines'))
    return out, None, None


def looks_like_traceback(text):
    return 'Traceback (most recent call last)' in text


def cli_oracle(data, opts, expected_asm, accepted, plan=None, inp_missing=False, inp_dir=False, out_dir=False,
               stdout_fault=None, locale_encoding='utf-8'):
    """Run the CLI on the fake fs; -> (violations, CliResult)"""
    out = []
    files = {} if inp_missing else {'in.hid': data}
    dirs = set()
    if inp_dir:
        files = {}
        dirs.add('in.hid')
    outname = 'out.s' if opts.get('o') else 'in.hid.s'
    if out_dir:
        dirs.add(outname)
    fs = FakeFS(files, dirs, plan or FaultPlan(), locale_encoding=locale_encoding)
    r = run_cli(cli_args(opts), fs, stdout_fault=stdout_fault)
    fired = fs.plan.fired
    if stdout_fault and getattr(r.stdout_obj, 'fired', False) and fired is None:
        fired = ('stdout', stdout_fault)
    if r.exception is not None:
        out.append(('cli-traceback', f'{type(r.exception).__name__}: {r.exception} escaped main() '
                                     f'(args {cli_args(opts)}, fault {fired})'))
        return out, r
    if looks_like_traceback(r.stderr):
        out.append(('cli-traceback', 'traceback printed on stderr'))
    produced = fs.files.get(outname) if outname in fs.created else None
    if r.status != 0:
        if not r.stderr.strip():
            out.append(('cli-silent-failure', f'exit status {r.status} without a diagnostic on stderr'))
        write_fault = fired is not None and fired[0] in ('write', 'close') and fired[1] == outname
        if produced is not None and not write_fault:
            out.append(('cli-output-on-failure', f'exit status {r.status} but {outname} was created '
                                                 f'({len(produced)} bytes); stderr: {r.stderr.strip()[:120]}'))
        if fired is None and not (inp_missing or inp_dir or out_dir) and accepted is True and expected_asm is not None:
            out.append(('cli-rejects-valid', f'API compiles this input but the CLI exits {r.status}: {r.stderr.strip()[:200]}'))
    else:
        if produced is None:
            out.append(('cli-success-without-output', f'exit status 0 but {outname} was not written'))
        elif accepted is False:
            out.append(('cli-accepts-invalid', 'exit status 0 although the API raises a CompilerError'))
        elif expected_asm is not None and produced != expected_asm:
            out.append(('cli-output-differs', f'exit status 0 but {outname} ({len(produced)} bytes) differs from '
                                              f'the API result ({len(expected_asm)} bytes)'))
        if fired is not None and fired[0] in ('write', 'close', 'open-w') and fired[1] == outname:
            out.append(('cli-success-despite-write-failure', f'exit status 0 although {fired[0]} of {outname} failed'))
    return out, r


NON_ASCII_NAME = re.compile(r'[A-Za-z_][A-Za-z0-9_]*[^\x00-\x7f\W]')


def check_assembles(asm_bytes, text):
    """success => complete assembly the strict assembler accepts (any argv shape)."""
    lines = asm_bytes.split(b'\n')
    for argv in ([], ['1'], ['1', '2'], ['1', '2', '3'], ['1', '2', '3', '4'], ['1', '2', '3', '4', '5']):
        try:
            assemble(lines, argv)
            return None
        except ArgError:
            continue
        except AsmError as e:
            if 'unreasonably large for the simulator' in str(e):
                return None
            if NON_ASCII_NAME.search(text):
                # hidc accepts names such as `gé` (ASCII start, \w continuation) and emits them verbatim as
                # labels; whether the Sphinx assembler takes non-ASCII labels is not known here (DESIGN 7)
                return None
            return ('asm-error', str(e))
    return None


def real_cli(data, opts):
    """The same invocation through a real interpreter and a real directory."""
    d = tempfile.mkdtemp(prefix='hidc10_')
    try:
        with open(os.path.join(d, 'in.hid'), 'wb') as f:
            f.write(data)
        env = dict(os.environ, PYTHONPATH=hidc_api.REPO, PYTHONDONTWRITEBYTECODE='1')
        r = subprocess.run([sys.executable, '-m', 'hidc'] + cli_args(opts), cwd=d, env=env,
                           stdout=subprocess.PIPE, stderr=subprocess.PIPE, timeout=120)
        outname = 'out.s' if opts.get('o') else 'in.hid.s'
        path = os.path.join(d, outname)
        produced = open(path, 'rb').read() if os.path.exists(path) else None
        return r.returncode, r.stderr.decode('utf-8', 'replace'), produced
    finally:
        shutil.rmtree(d, ignore_errors=True)


def judge(kind, payload, opts, idx, enumerate_faults=True, cross_check=False):
    if kind.startswith('flatchain'):
        # these inputs are about the recursion limit: judge them under the interpreter's default limit (the
        # harness raises it for its own generators), without the subprocess comparison whose stack depth differs
        old_limit = sys.getrecursionlimit()
        sys.setrecursionlimit(1000)
        try:
            return _judge(kind, payload, opts, idx, False, False)
        finally:
            sys.setrecursionlimit(old_limit)
    return _judge(kind, payload, opts, idx, enumerate_faults, cross_check)


def fingerprint_of(kind, cls, detail):
    if kind.startswith('flatchain') and cls in ('internal-error', 'cli-traceback') and 'RecursionError' in detail:
        return FLAT_FP
    return None


def _judge(kind, payload, opts, idx, enumerate_faults=True, cross_check=False):
    viol = []
    stats = {'fs_calls': 0, 'fault_points': 0, 'faults': {}}
    if isinstance(payload, bytes):
        data = payload
        try:
            text = data.decode('utf-8')
        except UnicodeDecodeError:
            text = None
    else:
        text = payload
        data = payload.encode('utf-8', 'surrogatepass') if payload is not None else b''
        try:
            data.decode('utf-8')
        except UnicodeDecodeError:
            text = None
    asm, accepted = None, None
    if text is not None:
        # universal newlines, as the CLI reads the file
        norm = text.replace('\r\n', '\n').replace('\r', '\n')
        v, asm, accepted = api_oracle(norm, opts)
        viol += [(c, d, None) for c, d in v]
        if asm is not None:
            a = check_assembles(asm, norm)
            if a:
                viol.append((a[0], a[1], None))
    # fault-free CLI run
    plan0 = FaultPlan()
    v, r0 = cli_oracle(data, opts, asm, accepted, plan0)
    viol += [(c, d, {'fault': None}) for c, d in v]
    stats['fs_calls'] = len(plan0.calls)
    if text is None and r0.exception is None and r0.status == 0:
        viol.append(('cli-accepts-undecodable', 'input is not valid UTF-8 but the CLI exits 0', {'fault': None}))
    if text is None:
        stats['faults']['undecodable'] = 1
    # enumerate one injected fault per recorded call x errno
    if enumerate_faults and not viol:
        calls = list(plan0.calls)
        idxs = list(range(min(len(calls), 64)))
        idxs += [i for i in range(max(64, len(calls) - 4), len(calls))]
        for i in idxs:
            for en in (errno.EIO, errno.ENOSPC, errno.EACCES, errno.EMFILE):
                if en in (errno.EACCES, errno.EMFILE) and not calls[i][0].startswith('open'):
                    continue
                if en == errno.ENOSPC and calls[i][0] in ('read', 'open-r'):
                    continue
                plan = FaultPlan(at=i, err=en)
                v, r = cli_oracle(data, opts, asm, accepted, plan)
                stats['fault_points'] += 1
                if plan.fired:
                    k = f'{plan.fired[0]}:{errno.errorcode[en]}'
                    stats['faults'][k] = stats['faults'].get(k, 0) + 1
                viol += [(c, d, {'fault': [i, en]}) for c, d in v]
                if viol:
                    break
            if viol:
                break
        if not viol and not opts.get('o'):
            # the "written to ..." message goes to standard output only without -o: a full or non-encoding stdout
            # must neither produce a traceback nor turn a finished build into a failure that leaves its file behind
            for sf in ('oserror', 'encode'):
                v, r = cli_oracle(data, opts, asm, accepted, FaultPlan(), stdout_fault=sf)
                stats['fault_points'] += 1
                if getattr(r.stdout_obj, 'fired', False):
                    stats['faults']['stdout:' + sf] = stats['faults'].get('stdout:' + sf, 0) + 1
                viol += [(c, d, {'stdout_fault': sf}) for c, d in v]
        if not viol:
            # legal but unusual devices: reads that return 1 or 3 bytes at a time (multi-byte characters and CR LF
            # pairs split between reads), writes that accept only 7 bytes at a time, a signal during the k-th
            # read or write (EINTR): the outcome must be exactly the fault-free one
            base = r0.fs.files.get('out.s' if opts.get('o') else 'in.hid.s') if r0.fs.created else None
            rw = [i for i, c in enumerate(plan0.calls) if c[0] in ('read', 'write')]
            plans = [('short_read', FaultPlan(short_read=1 if len(data) <= 6000 else 61)), ('short_read', FaultPlan(short_read=3)),
                     ('short_write', FaultPlan(short_write=7 if (base is None or len(base) <= 20000) else 997))]
            plans += [('eintr', FaultPlan(eintr_at=i)) for i in (rw[:2] + rw[-2:])]
            for name, plan in plans:
                v, r = cli_oracle(data, opts, asm, accepted, plan)
                stats['fault_points'] += 1
                if plan.shorts or plan.eintr_fired:
                    stats['faults'][name] = stats['faults'].get(name, 0) + 1
                viol += [(c, d + f' ({name})', {'slow_io': name}) for c, d in v]
                got = r.fs.files.get('out.s' if opts.get('o') else 'in.hid.s') if r.fs.created else None
                if not v and (r.status != r0.status or got != base):
                    viol.append(('cli-slow-io-dependent', f'with {name} the tool exits {r.status} ({"no" if got is None else len(got)} bytes '
                                 f'of output), without it {r0.status} ({"no" if base is None else len(base)} bytes): '
                                 f'{r.stderr.strip()[-160:]!r}', {'slow_io': name}))
                if viol:
                    break
        if not viol and text is not None and any(b >= 0x80 for b in data):
            # the process environment: a locale whose encoding is not UTF-8 must change nothing (same status,
            # same file) - the fake file system decodes an open() that names no encoding with it, as CPython does
            base = r0.fs.files.get('out.s' if opts.get('o') else 'in.hid.s') if r0.fs.created else None
            for loc in ('ascii', 'latin-1', 'cp1252'):
                v, r = cli_oracle(data, opts, asm, accepted, FaultPlan(), locale_encoding=loc)
                stats['fault_points'] += 1
                stats['faults']['locale:' + loc] = stats['faults'].get('locale:' + loc, 0) + 1
                viol += [(c, d + f' (locale encoding {loc})', {'locale': loc}) for c, d in v]
                got = r.fs.files.get('out.s' if opts.get('o') else 'in.hid.s') if r.fs.created else None
                if not v and ((r.status == 0) != (r0.status == 0) or got != base):
                    viol.append(('cli-locale-dependent', f'under a {loc} locale the tool exits {r.status} '
                                 f'({"no" if got is None else len(got)} bytes of output), under UTF-8 {r0.status} '
                                 f'({"no" if base is None else len(base)} bytes): {r.stderr.strip()[-160:]!r}', {'locale': loc}))
                if viol:
                    break
        if not viol:
            for variant in ('inp_missing', 'inp_dir', 'out_dir'):
                v, r = cli_oracle(data, opts, asm, accepted, FaultPlan(), **{variant: True})
                stats['fault_points'] += 1
                stats['faults'][variant] = stats['faults'].get(variant, 0) + 1
                viol += [(c, d, {'variant': variant}) for c, d in v]
    if cross_check and not viol:
        rc, err, produced = real_cli(data, opts)
        stats['faults']['real_subprocess'] = 1
        fake_out = r0.fs.files.get('out.s' if opts.get('o') else 'in.hid.s') if r0.fs.created else None
        if (rc == 0) != (r0.status == 0) or (produced is None) != (fake_out is None) or (
                produced is not None and fake_out is not None and produced != fake_out):
            viol.append(('fake-fs-disagrees', f'real CLI: status {rc}, output {"present" if produced is not None else "absent"}; '
                                              f'fake: status {r0.status}, output {"present" if fake_out is not None else "absent"}; '
                                              f'real stderr {err[:160]!r}', None))
    return viol, stats, accepted


def case(seed, idx, tier):
    global MATRIX
    rnd = case_rng(seed, ID, idx)
    if MATRIX is None:
        MATRIX = matrix_jobs()
        assert len(MATRIX) == N_MATRIX, len(MATRIX)
    if idx < len(MATRIX):
        job = MATRIX[idx]
        res = common.new_result()
        try:
            payload = matrix_source(job)
        except Exception as e:   # noqa: BLE001 - an item the renderer cannot print in this host
            res['key'] = f'unrenderable{idx}'
            res['counters']['matrix_unrenderable'] = 1
            return res
        opts = {'unchecked': idx % 5 == 3, 'lint': idx % 7 == 2, 'o': idx % 3 != 0}
        if idx % 11 == 0:
            opts['m'] = (24, 32, 64)[idx % 3]
        kind = 'matrix_' + job[0]
        viol, stats, accepted = judge(kind, payload, opts, idx, enumerate_faults=(idx % 10 == 0), cross_check=(idx % 400 == 0))
    else:
        idx -= len(MATRIX)
        kind, payload, opts, res, viol, stats, accepted = case_random(rnd, idx)
    raw = payload if isinstance(payload, bytes) else payload.encode('utf-8', 'surrogatepass')
    res['key'] = digest(raw, sorted(opts.items()))
    res['nontrivial'] = bool(stats['fs_calls'] and (stats['fault_points'] or kind != 'valid'))
    res['counters'].update(fs_calls=stats['fs_calls'], fault_points=stats['fault_points'])
    res['counters']['kind_' + kind] = 1
    res['counters']['accepted' if accepted else ('rejected' if accepted is False else 'not_compiled')] = 1
    res['faults_fired'] = stats['faults']
    res['digest'] = digest(res['key'], [(v[0], v[1]) for v in viol])
    if idx in (1, 2, 3):
        res['sample'] = {'kind': kind, 'options': opts, 'source': (payload if isinstance(payload, str) else repr(payload))[:600],
                         'fs_calls': stats['fs_calls'], 'fault_points': stats['fault_points']}
    for cls, detail, extra in viol[:1]:
        res['violations'].append({
            'cls': cls, 'detail': detail, 'fingerprint': fingerprint_of(kind, cls, detail),
            'payload': {'kind': kind, 'options': opts, 'data_latin1': raw.decode('latin-1'), 'extra': extra},
            'sample': {'kind': kind, 'options': opts, 'source': raw.decode('utf-8', 'replace')[:800]}})
    return res


def case_random(rnd, idx):
    kind, payload = make_source(rnd)
    opts = make_options(rnd)
    if idx % 9 == 0 and isinstance(payload, str):
        # a valid-looking text with a few undecodable bytes spliced in
        b = payload.encode('utf-8', 'replace')
        pos = rnd.randrange(len(b) + 1)
        payload = b[:pos] + bytes([rnd.choice((0xff, 0xfe, 0xc0, 0x80))]) + b[pos:]
        kind += '+badbyte'
    res = common.new_result()
    viol, stats, accepted = judge(kind, payload, opts, idx, cross_check=(idx % 40 == 0))
    return kind, payload, opts, res, viol, stats, accepted


def replay(pl):
    data = pl['data_latin1'].encode('latin-1')
    viol, _, _ = judge(pl['kind'], data, pl['options'], 0)
    return [{'cls': c, 'detail': d, 'fingerprint': fingerprint_of(pl['kind'], c, d)} for c, d, _ in viol]
