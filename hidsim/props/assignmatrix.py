"""Seed-independent matrix for C01/C02: `v = E(v)` and `v op= E(v)` for scalar variables of every storage class,
where E reads v in several places - directly, through a function that looks at the global, inside array literals,
under `.length`, indexing, casts, unary operators and (C02 half) `??`.  A lowering that uses the assigned
variable itself as a scratch register, or writes it before all operands are read, changes what E sees."""
from ..build import I, C, S, B, V, call, ex, write, decl, setv, aug, bin_, idx, ln, is_, ret, func, prog

INT_TEMPLATES = [
    lambda X: ln(('arr', (bin_('+', X, I(5)), call('look')))),
    lambda X: idx(('arr', (call('look'), X, bin_('+', X, I(1)))), I(1)),
    lambda X: idx(('arr', (bin_('+', X, I(7)), X)), I(1)),
    lambda X: ('un', '-', idx(('arr', (bin_('*', X, I(2)), X)), I(1))),
    lambda X: bin_('+', ln(('arr', (X, call('look')))), X),
    lambda X: is_(bin_('and', bin_('>', X, I(0)), bin_('==', call('look'), call('look'))), 'int'),
    lambda X: bin_('+', call('twice', X), call('look')),
    lambda X: bin_('-', call('look'), bin_('*', X, I(3))),
    lambda X: idx(('arr', (I(10), I(20), I(30))), bin_('%', X, I(3))),
    lambda X: is_(idx(S('abc'), bin_('%', X, I(3))), 'int'),
    lambda X: bin_('+', idx(('arr', (I(1), X)), I(1)), idx(('arr', (X, I(2))), I(0))),
    lambda X: call('twice', idx(('arr', (bin_('-', X, I(1)), call('look'))), I(0))),
    # the right-hand side changes the global while the assignment is under way: `g += bump()` is g = g + bump()
    # with g read first, `g = bump() + g` reads it afterwards
    lambda X: call('bump'),
    lambda X: bin_('+', X, call('bump')),
    lambda X: bin_('+', call('bump'), X),
    lambda X: bin_('-', bin_('*', X, I(2)), bin_('+', call('bump'), call('look'))),
]
SPEC_TEMPLATES = [
    lambda X: ('spec', X, I(5)),
    lambda X: ('spec', X, I(4)),
    lambda X: ('spec', call('look'), I(7)),
    lambda X: ('spec', bin_('+', X, I(1)), I(7)),
    lambda X: ('spec', bin_('+', X, I(1)), I(5)),
    lambda X: ('un', '-', ('spec', X, I(5))),
    lambda X: bin_('+', ('spec', X, I(5)), I(1)),
    lambda X: bin_('-', I(100), ('spec', call('look'), X)),
    lambda X: idx(('arr', (('spec', X, I(5)), I(2))), I(0)),
    lambda X: ('spec', call('twice', X), bin_('*', X, I(2))),
    lambda X: ('spec', call('twice', X), bin_('+', call('look'), I(1))),
    lambda X: is_(('spec', bin_('>', X, I(3)), B(False)), 'int'),
    # a plain variable on the left (nothing to compute), a computed value on the right
    lambda X: ('spec', X, bin_('+', X, I(1))),
    lambda X: ('spec', X, bin_('-', bin_('+', X, I(1)), I(1))),
    lambda X: ('spec', X, bin_('*', call('look'), I(1))),
    lambda X: ('spec', X, bin_('+', V('k'), I(1))),
    lambda X: ('spec', V('k'), bin_('-', X, I(0))),
]
STR_TEMPLATES = [
    lambda X: idx(('arr', (S('x'), X)), I(1)),
    lambda X: idx(('arr', (X, S('y'))), I(0)),
    lambda X: call('pick', X, S('zz')),
    lambda X: idx(('arr', (call('pick', S('p'), X), X, S('q'))), I(1)),
]
STORAGES = ('global', 'local', 'param')


def jobs(spec):
    out = []
    n = len(SPEC_TEMPLATES if spec else INT_TEMPLATES)
    for st in STORAGES:
        for t in range(n):
            for form in ('set', 'aug', 'decl', 'arg'):
                out.append(('int', st, t, form))
    if not spec:
        for st in STORAGES:
            for t in range(len(STR_TEMPLATES)):
                out.append(('str', st, t, 'set'))
    return out


def program(job, spec):
    kind, st, t, form = job
    look = func('int', 'look', [], write(C('<')), write(V('g')), write(C('>')), ret(V('g')))
    twice = func('int', 'twice', [('int', 'a')], ret(bin_('*', V('a'), I(2))))
    bump = func('int', 'bump', [], setv('g', bin_('+', bin_('*', V('g'), I(2)), I(1))), ret(I(1)))
    pick = func('string', 'pick', [('string', 'a'), ('string', 'b')], write(V('sg')), ret(V('b')))
    glob = [decl('int', 'g', I(4)), decl('int', 'k', I(4)), decl('string', 'sg', S('old'))]
    if kind == 'int':
        tmpl = (SPEC_TEMPLATES if spec else INT_TEMPLATES)[t]
        name = 'g' if st == 'global' else 'v'
        steps = []
        for rnd_ in range(3):
            e = tmpl(V(name))
            if form == 'set':
                steps.append(setv(name, e))
            elif form == 'aug':
                steps.append(aug('+', name, e))
            elif form == 'decl':
                steps += [decl('int', f'y{rnd_}', e), write(V(f'y{rnd_}')), write(C(':')), setv(name, bin_('+', V(name), I(1)))]
            else:
                steps += [write(call('twice', e)), write(C(':')), setv(name, bin_('+', V(name), I(1)))]
            steps += [write(V(name)), write(C(';')), write(V('g')), write(C(' '))]
        if st == 'global':
            body = steps
            fs = []
        elif st == 'local':
            body = [decl('int', 'v', V('q'))] + steps
            fs = []
        else:
            wname = '@work' if spec else 'work'      # ?? can only be used by you
            fs = [func('empty', wname, [('int', 'v')], *steps)]
            body = [ex(call(wname, V('q')))]
    else:
        tmpl = STR_TEMPLATES[t]
        name = 'sg' if st == 'global' else 'w'
        steps = []
        for rnd_ in range(2):
            steps += [setv(name, tmpl(V(name))), write(V(name)), write(C(';')), write(V('sg')), write(C(' '))]
        if st == 'global':
            body, fs = steps, []
        elif st == 'local':
            body, fs = [decl('string', 'w', S('loc'))] + steps, []
        else:
            fs = [func('empty', 'work', [('string', 'w')], *steps)]
            body = [ex(call('work', S('par')))]
    return prog(glob, [look, twice, bump, pick] + fs + [func('empty', '@is_you', [('int', 'q')], *body)]), ['4']
