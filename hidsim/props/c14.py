"""C14 - compile-time evaluation is invisible."""
from ..build import *   # noqa: F401,F403
from ..harness import case_rng
from ..runner import digest, build, run_svm, hist_text
from .. import render, refmodel, lang
from ..monitors import Monitor
from . import common

ID = 'C14'
LEVEL = 'exploration'
TIERS = {
    'quick': {'cases': 2400, 'wall': 100, 'chunk': 16},
    'thorough': {'cases': 60000, 'wall': 1200, 'chunk': 32},
}
RULE = ('case i: seeded constant expressions (depth <= 5) over + - * / % comparisons == != and or not, unary '
        '+ -, and the casts is int/byte/bool, with boundary literals, const locals and const globals as '
        'leaves (optionally some run-time leaves from argv, so that only part of the tree can be evaluated '
        'in advance); 12% of the cases are `K ?? noisy(v)` programs with a constant left operand, 8% index '
        'constant strings with constant (also negative / too large) indices, 12% put a constant (literal, folded, const '
        'variable) next to an operand with an effect - a printing call, a division that may fault - under and/or, '
        'arithmetic and comparisons, in value / branch / !truth_is_defeat / declaration position; const byte variables are also '
        'initialised from out-of-range int constants. Each program is compiled twice: as written, and as its run-time twin in which every '
        'literal and const variable is a non-const local holding the same value. Word sizes {2,3,4}. '
        'oracle: both forms must commit the reference history; a compile-time rejection of the constant '
        'form is accepted only if the twin ends in a run-time fault or the program contains a division whose '
        'constant divisor really is zero at this word size (evaluating that sub-expression would fault, even '
        'where the twin never reaches it). distinct = hash(source, argv, W); '
        'non-trivial = the constant form contains at least one foldable operator and both forms ran.')
ASSUMPTIONS = ['SVM as calibrated; immediates are wrapped to the word by the assembler',
               'known finding F4 is recognised by an exact model of the defect (folding with unbounded integers): '
               'a mismatch is reported as KNOWN-FINDING only if the observed output equals that model\'s prediction']

REJECT = 'REJECT'


class Gen14:
    def __init__(self, rnd, W, p_runtime):
        self.rnd = rnd
        self.W = W
        self.maxs = (1 << (8 * W - 1)) - 1
        self.p_runtime = p_runtime
        self.consts = {}      # name -> (type, literal expr, is_global)
        self.runtime = {}     # name -> (type, value)  (argv)
        self.n = 0

    def lit_int(self):
        r = self.rnd
        m = self.maxs
        return r.choice((0, 1, -1, 2, 3, 7, 10, 127, 128, 255, 256, 257, 258, -128, -255, -256, m, m - 1,
                         -m - 1, -m, m + 1, 2 * m + 1, 2 * m + 2, r.randrange(-300, 300),
                         r.randrange(-m - 1, m + 1), r.randrange(0, 1 << 20)))

    def leaf(self, t):
        r = self.rnd
        if r.random() < self.p_runtime:
            return self.runtime_leaf(t)
        c = r.random()
        if c < 0.3:
            # const variable
            self.n += 1
            name = f'k{self.n}'
            lit = self.literal(t)
            if t == 'byte' and r.random() < 0.4:
                # implicit narrowing of an int constant at the declaration keeps the low byte
                lit = r.choice((I(-1), I(256), I(300), I(511), I(-128), I(65535), I(-256),
                                bin_('+', I(200), I(100)), bin_('*', I(16), I(17)), ('un', '-', I(7))))
            self.consts[name] = (t, lit, r.random() < 0.4)
            return V(name)
        return self.literal(t)

    def literal(self, t):
        r = self.rnd
        if t == 'int':
            return I(self.lit_int())
        if t == 'byte':
            return C(r.choice((0, 1, 9, 10, 39, 65, 127, 128, 255, r.randrange(256))))
        return B(r.random() < 0.5)

    def runtime_leaf(self, t):
        self.n += 1
        name = f'r{self.n}'
        if t == 'int':
            v = max(-self.maxs - 1, min(self.maxs, self.lit_int()))
        elif t == 'byte':
            v = self.rnd.randrange(256)
        else:
            v = self.rnd.randrange(2)
        self.runtime[name] = (t, v)
        return V(name)

    def expr(self, t, d):
        r = self.rnd
        if d <= 0 or r.random() < 0.15:
            return self.leaf(t)
        if t == 'int':
            c = r.randrange(10)
            if c < 6:
                op = r.choice(('+', '-', '*', '/', '%', '+', '-', '*'))
                return bin_(op, self.operand(d - 1), self.operand(d - 1))
            if c < 8:
                return ('un', r.choice('-+'), self.operand(d - 1))
            if c == 8:
                return is_(self.expr('byte', d - 1), 'int')
            return is_(self.expr('bool', d - 1), 'int')
        if t == 'byte':
            c = r.randrange(4)
            if c < 3:
                return is_(self.expr('int', d - 1), 'byte')
            return is_(self.expr('bool', d - 1), 'byte')
        c = r.randrange(10)
        if c < 4:
            return bin_(r.choice(('<', '<=', '>', '>=', '==', '!=')), self.operand(d - 1), self.operand(d - 1))
        if c < 5:
            return bin_(r.choice(('==', '!=')), self.expr('bool', d - 1), self.expr('bool', d - 1))
        if c < 7:
            return bin_(r.choice(('and', 'or')), self.truthy(d - 1), self.truthy(d - 1))
        if c < 8:
            return ('un', 'not', self.truthy(d - 1))
        return is_(self.operand(d - 1), 'bool')

    def operand(self, d):
        return self.expr('byte' if self.rnd.random() < 0.2 else 'int', d)

    def truthy(self, d):
        return self.expr(self.rnd.choice(('bool', 'bool', 'int', 'byte')), d)


def static_type(e, consts, runtime):
    k = e[0]
    if k == 'int':
        return 'int'
    if k == 'chr':
        return 'byte'
    if k == 'bool':
        return 'bool'
    if k == 'var':
        return (consts.get(e[1]) or runtime.get(e[1]))[0]
    if k == 'is':
        return e[2]
    if k == 'un':
        return 'bool' if e[1] == 'not' else 'int'
    if e[1] in ('+', '-', '*', '/', '%'):
        return 'int'
    return 'bool'


class Rejected(Exception):
    pass


def fold_model(e, consts, runtime, W, mask_byte_cast):
    """Exact model of hidc's folder with unbounded integers (known finding F4).
    -> ('c', exact value) for a compile-time constant, ('r', wrapped value)."""
    bits = 8 * W
    full = 1 << bits

    def wrap(v):
        v &= full - 1
        return v - full if v >> (bits - 1) else v

    def rt(x):
        return wrap(x[1]) if x[0] == 'c' else x[1]

    def go(e):
        k = e[0]
        if k in ('int', 'chr'):
            return ('c', e[1])
        if k == 'bool':
            return ('c', int(e[1]))
        if k == 'var':
            if e[1] in consts:
                x = go(consts[e[1]][1])
                if consts[e[1]][0] == 'byte' and mask_byte_cast:
                    return ('c', x[1] & 0xFF)
                return x
            return ('r', runtime[e[1]][1])
        if k == 'is':
            x = go(e[1])
            t = e[2]
            if x[0] == 'c':
                if t == 'bool':
                    return ('c', int(bool(x[1])))
                if t == 'byte' and mask_byte_cast:
                    return ('c', x[1] & 0xFF)
                return ('c', x[1])
            if t == 'bool':
                return ('r', int(x[1] != 0))
            if t == 'byte':
                return ('r', x[1] & 0xFF)
            return x
        if k == 'un':
            x = go(e[2])
            if e[1] == 'not':
                return (x[0], int(not rt(x))) if x[0] == 'r' else ('c', int(not x[1]))
            if e[1] == '+':
                return x
            return ('c', -x[1]) if x[0] == 'c' else ('r', wrap(-x[1]))
        op = e[1]
        if op in ('and', 'or'):
            a = go(e[2])
            # a constant operand is cast to bool at compile time on its exact (unwrapped) value
            ta = a[1] != 0
            short = (not ta) if op == 'and' else ta
            try:
                b = go(e[3])
            except ZeroDivisionError:
                # the right operand is folded at compile time (Rejected propagates) but is
                # not executed when the left operand decides
                if not short:
                    raise
                return ('r', int(ta))
            if a[0] == 'c' and b[0] == 'c':
                return ('c', int((bool(a[1]) and bool(b[1])) if op == 'and' else (bool(a[1]) or bool(b[1]))))
            tb = b[1] != 0
            return ('r', int((ta and tb) if op == 'and' else (ta or tb)))
        a, b = go(e[2]), go(e[3])
        both = a[0] == 'c' and b[0] == 'c'
        if both:
            x, y = a[1], b[1]
        else:
            x, y = rt(a), rt(b)
        if op in ('/', '%'):
            if y == 0:
                if both:
                    raise Rejected()
                raise ZeroDivisionError()
            v = x // y if op == '/' else x % y
        elif op == '+':
            v = x + y
        elif op == '-':
            v = x - y
        elif op == '*':
            v = x * y
        else:
            v = int({'<': x < y, '<=': x <= y, '>': x > y, '>=': x >= y, '==': x == y, '!=': x != y}[op])
        return ('c', v) if both else ('r', wrap(v))
    def scan(e):
        """compile-time pass: every node is folded by the typechecker, also those that are
        never executed; a constant zero divisor anywhere rejects the program"""
        k = e[0]
        if k in ('int', 'chr'):
            return e[1]
        if k == 'bool':
            return int(e[1])
        if k == 'var':
            if e[1] not in consts:
                return None
            v = scan(consts[e[1]][1])
            return v & 0xFF if (v is not None and consts[e[1]][0] == 'byte' and mask_byte_cast) else v
        if k == 'is':
            v = scan(e[1])
            if v is None:
                return None
            if e[2] == 'bool':
                return int(bool(v))
            if e[2] == 'byte' and mask_byte_cast:
                return v & 0xFF
            return v
        if k == 'un':
            v = scan(e[2])
            if v is None:
                return None
            return {'-': -v, '+': v, 'not': int(not v)}[e[1]]
        a, b = scan(e[2]), scan(e[3])
        if a is None or b is None:
            return None
        op = e[1]
        if op in ('/', '%'):
            if b == 0:
                raise Rejected()
            return a // b if op == '/' else a % b
        if op == 'and':
            return int(bool(a) and bool(b))
        if op == 'or':
            return int(bool(a) or bool(b))
        return {'+': a + b, '-': a - b, '*': a * b, '<': int(a < b), '<=': int(a <= b), '>': int(a > b),
                '>=': int(a >= b), '==': int(a == b), '!=': int(a != b)}[op]
    scan(e)
    x = go(e)
    return rt(x) if x[0] == 'c' else x[1]


def has_short_circuit_fault(e):
    return False


def spec_programs(rnd, W):
    """`K ?? noisy(v)`: a compile-time constant on the left of ?? must not hide the
    evaluation of the right operand.  Constants stay small (no F4 here)."""
    noisy = func('int', 'noisy', [('int', 'a')], write(C('(')), write(V('a')), write(C(')')),
                 ret(bin_('+', V('a'), I(1))))
    body_c, body_t, decls_t = [], [], []
    for k in range(rnd.randrange(1, 4)):
        kv = rnd.randrange(0, 9)
        arg = rnd.choice((kv - 1, kv, kv + 1, 3))
        form = rnd.randrange(3)
        if form == 0:
            left_c = I(kv)
        elif form == 1:
            left_c = bin_('+', I(kv - 1), I(1))
        else:
            left_c = V(f'kc{k}')
            body_c.append(decl('int', f'kc{k}', I(kv), True))
        decls_t.append(decl('int', f'tv{k}', I(kv)))
        body_c += [write(('spec', left_c, call('noisy', I(arg)))), write(C(';'))]
        body_t += [write(('spec', V(f'tv{k}'), call('noisy', I(arg)))), write(C(';'))]
    const_form = prog([], [noisy, func('empty', '@is_you', [], *body_c)])
    twin = prog([], [noisy, func('empty', '@is_you', [], *(decls_t + body_t))])
    g = Gen14(rnd, W, 0.0)
    g.ifs = []
    return const_form, twin, [], [], g


def partial_programs(rnd, W):
    """A compile-time constant next to an operand with an effect (a call that prints, a division that may
    fault): whatever the constant allows the compiler to conclude about the result (x * 0, x and false,
    true or x, x % 1 ...), the other operand must still be evaluated exactly as in the run-time twin -
    and must not be evaluated where the twin short-circuits."""
    noisy = func('int', 'noisy', [('int', 'a')], write(C('(')), write(V('a')), write(C(')')),
                 ret(bin_('+', V('a'), I(1))))
    body_c, body_t, decls_t = [], [], [decl('int', 'z', I(rnd.choice((0, 0, 1, 3))))]
    body_c.append(decl('int', 'z', decls_t[0][3]))
    for k in range(rnd.randrange(1, 4)):
        a = rnd.randrange(-2, 4)

        def impure_int():
            c = rnd.randrange(4)
            if c == 0:
                return bin_('/', I(10), V('z'))
            if c == 1:
                return bin_('+', call('noisy', I(a)), I(1))
            return call('noisy', I(a))

        def impure_bool():
            c = rnd.randrange(5)
            if c == 0:
                return bin_(rnd.choice(('>', '==', '<=')), impure_int(), I(rnd.randrange(0, 3)))
            if c == 1:
                return is_(impure_int(), 'bool')
            if c == 2:
                return ('un', 'not', bin_('==', call('noisy', I(a)), I(3)))
            if c == 3:
                return bin_('>', bin_('/', I(10), V('z')), I(0))
            return bin_('!=', call('noisy', I(a)), I(0))
        kind = rnd.randrange(4)
        if kind == 3:
            # a constant as the whole condition of if / while / for: statements after the construct
            # (and the right branch) run exactly as with a run-time condition of the same value
            val = rnd.random() < 0.4
            lits = [B(val), bin_('<', I(1), I(2)) if val else bin_('>', I(1), I(2)), ('un', 'not', B(not val)),
                    is_(I(7 if val else 0), 'bool')]
            form = rnd.randrange(5)
            if form < 4:
                const_e = lits[form]
            else:
                const_e = V(f'kc{k}')
                body_c.append(decl('bool', f'kc{k}', lits[0], True))
            decls_t.append(decl('bool', f'tv{k}', lits[0]))
            shape = rnd.randrange(4)
            for e, body in ((const_e, body_c), (V(f'tv{k}'), body_t)):
                if shape == 0:
                    body += [if_(e, block(write(C('T')), ex(call('noisy', I(a)))), block(write(C('F')))), write(C(';'))]
                elif shape == 1:
                    # (a constant-true loop needs its break; a constant-false one is also tried without)
                    tail = [] if (not val and a % 2 == 0) else [('break',)]
                    body += [while_(e, write(C('L')), ex(call('noisy', I(a))), *tail), write(C('a')), write(C(';'))]
                elif shape == 2:
                    body += [('for', decl('int', f'i{k}', I(0)), bin_('and', e, bin_('<', V(f'i{k}'), I(2))),
                              aug('+', f'i{k}', I(1)), block(write(V(f'i{k}')))), write(C('a')), write(C(';'))]
                else:
                    body += [if_(e, block(write(C('T')))), while_(('un', 'not', e), write(C('N')), ('break',)), write(C(';'))]
            continue
        if kind == 0:
            op = rnd.choice(('and', 'or'))
            val = rnd.random() < 0.5
            t = 'bool'
            other = impure_bool()
            lits = [B(val), bin_('<', I(1), I(2)) if val else bin_('>', I(1), I(2)), ('un', 'not', B(not val))]
        elif kind == 1:
            op = rnd.choice(('+', '-', '*', '*', '/', '%', '%'))
            val = rnd.choice((0, 0, 1, 1, -1, 2))
            t = 'int'
            other = impure_int()
            lits = [I(val), bin_('-', I(val + 3), I(3)), bin_('*', I(val), I(1))]
        else:
            op = rnd.choice(('==', '!=', '<', '<=', '>', '>='))
            val = rnd.choice((0, 1, -1, 2))
            t = 'int'
            other = impure_int()
            lits = [I(val), bin_('-', I(val + 3), I(3)), bin_('*', I(val), I(1))]
        form = rnd.randrange(4)
        if form < 3:
            const_e = lits[form]
        else:
            const_e = V(f'kc{k}')
            body_c.append(decl(t, f'kc{k}', lits[0], True))
        decls_t.append(decl(t, f'tv{k}', lits[0]))
        left = rnd.random() < 0.5
        ec = bin_(op, const_e, other) if left else bin_(op, other, const_e)
        et = bin_(op, V(f'tv{k}'), other) if left else bin_(op, other, V(f'tv{k}'))
        pos = rnd.randrange(4)
        for e, body in ((ec, body_c), (et, body_t)):
            if pos == 0:
                body += [write(e), write(C(';'))]
            elif pos == 1:
                cond = e if (kind != 1) else bin_('!=', e, I(0))
                body += [if_(cond, block(write(C('T'))), block(write(C('F')))), write(C(';'))]
            elif pos == 2:
                cond = e if (kind != 1) else is_(e, 'bool')
                body += [try_(block(ex(call('!truth_is_defeat', cond)), write(C('n'))), 'undo', block(write(C('d')))), write(C(';'))]
            else:
                body += [decl('int' if kind == 1 else 'bool', f'r{k}', e), write(V(f'r{k}')), write(C(';'))]
    const_form = prog([], [noisy, func('empty', '@is_you', [], *body_c)])
    twin = prog([], [noisy, func('empty', '@is_you', [], *(decls_t + body_t))])
    g = Gen14(rnd, W, 0.0)
    g.ifs = []
    return const_form, twin, [], [], g


def strindex_programs(rnd, W):
    """constant index into a constant string: folding it (or not) must not change what
    happens, including out_of_bounds for negative and too large indices"""
    body_c, body_t, decls_t, glob = [], [], [], []
    for k in range(rnd.randrange(1, 4)):
        n = rnd.randrange(1, 11)
        text = ''.join(chr(rnd.randrange(33, 127)) for _ in range(n))
        kv = rnd.choice((0, n - 1, n, -1, -n, -n - 1, n + 3, rnd.randrange(-n - 2, n + 2)))
        form = rnd.randrange(3)
        if form == 0:
            src_c = ('str', text)
        else:
            src_c = V(f'sc{k}')
            d = decl('string', f'sc{k}', ('str', text), True)
            (glob if form == 1 else body_c).append(d)
        idx_c = I(kv) if rnd.random() < 0.6 else V(f'ic{k}')
        if idx_c[0] == 'var':
            body_c.append(decl('int', f'ic{k}', I(kv), True))
        decls_t += [decl('string', f'st{k}', ('str', text)), decl('int', f'it{k}', I(kv))]
        body_c += [write(C('<')), write(idx(src_c, idx_c)), write(is_(idx(src_c, idx_c), 'int')), write(C('>'))]
        body_t += [write(C('<')), write(idx(V(f'st{k}'), V(f'it{k}'))), write(is_(idx(V(f'st{k}'), V(f'it{k}')), 'int')), write(C('>'))]
    const_form = prog(glob, [func('empty', '@is_you', [], *body_c)])
    twin = prog([], [func('empty', '@is_you', [], *(decls_t + body_t))])
    g = Gen14(rnd, W, 0.0)
    g.ifs = []
    return const_form, twin, [], [], g


def make_programs(rnd, W):
    c0 = rnd.random()
    if c0 < 0.12:
        return spec_programs(rnd, W)
    if c0 < 0.2:
        return strindex_programs(rnd, W)
    if c0 < 0.32:
        return partial_programs(rnd, W)
    g = Gen14(rnd, W, p_runtime=rnd.choice((0.0, 0.0, 0.25)))
    exprs = []
    for _ in range(rnd.randrange(1, 5)):
        t = rnd.choice(('int', 'int', 'bool', 'byte'))
        exprs.append((t, g.expr(t, rnd.randrange(1, 6))))
    # constant form
    glob, body = [], []
    for name, (t, lit, is_global) in g.consts.items():
        d = decl(t, name, lit, True)
        (glob if is_global else body).append(d)
    ifs = []
    for i, (t, e) in enumerate(exprs):
        body += [write(e), write(C(';'))]
        ifs.append(t == 'bool' and rnd.random() < 0.5)
        if ifs[-1]:
            body += [if_(e, block(write(C('T'))), block(write(C('F'))))]
    params = [(t, n) for n, (t, v) in g.runtime.items()]
    argv = [str(v) for n, (t, v) in g.runtime.items()]
    if any(t == 'bool' for t, _ in params):
        # bools cannot be entry parameters: pass them as ints and convert
        conv = []
        new_params = []
        for t, n in params:
            if t == 'bool':
                new_params.append(('int', n + 'i'))
                conv.append(decl('bool', n, is_(V(n + 'i'), 'bool')))
            else:
                new_params.append((t, n))
        params = new_params
        body = conv + body
    const_form = prog(glob, [func('empty', '@is_you', params, *body)])
    # run-time twin: every literal and const variable becomes a non-const local
    twin_decls = []
    counter = [0]

    def lift(e):
        k = e[0]
        if k in ('int', 'chr', 'bool'):
            counter[0] += 1
            n = f't{counter[0]}'
            t = {'int': 'int', 'chr': 'byte', 'bool': 'bool'}[k]
            twin_decls.append(decl(t, n, e))
            return V(n)
        if k == 'var':
            return e
        if k == 'is':
            return ('is', lift(e[1]), e[2])
        if k == 'un':
            return ('un', e[1], lift(e[2]))
        return ('bin', e[1], lift(e[2]), lift(e[3]))
    tbody = []
    for name, (t, lit, is_global) in g.consts.items():
        tbody.append(decl(t, name, lit, False))
    stmts = []
    for i, (t, e) in enumerate(exprs):
        le = lift(e)
        stmts += [write(le), write(C(';'))]
        if ifs[i]:
            stmts += [if_(le, block(write(C('T'))), block(write(C('F'))))]
    conv = [s for s in body if s[0] == 'decl' and s[2] in g.runtime]
    twin = prog([], [func('empty', '@is_you', params, *(conv + tbody + twin_decls + stmts))])
    g.ifs = ifs
    return const_form, twin, argv, exprs, g


def body_has_if(body, i, exprs):
    # the constant form adds an `if` after expression i iff one follows its write pair
    t, e = exprs[i]
    for j, s in enumerate(body):
        if s[0] == 'expr' and s[1] == ('call', 'write', (e,)):
            if j + 2 < len(body) and body[j + 2][0] == 'if' and body[j + 2][1] == e:
                return True
    return False


def predict_known_defect(exprs, body_ifs, g, W, mask_byte_cast):
    """Output of the constant form under the F4 model, or REJECT."""
    out = bytearray()
    try:
        for (t, e), has_if in zip(exprs, body_ifs):
            v = fold_model(e, g.consts, g.runtime, W, mask_byte_cast)
            if t == 'int':
                out += str(v).encode()
            elif t == 'byte':
                out.append(v & 0xFF)
            else:
                out += b'true' if v else b'false'
            out += b';'
            if has_if:
                out += b'T' if v else b'F'
    except Rejected:
        return REJECT
    except ZeroDivisionError:
        return bytes(out) + b'<division_by_zero>'
    return bytes(out)


def const_zero_divisor(exprs, g, W):
    """Is there a division or modulo whose divisor is a constant expression that really is zero at this word
    size (or itself faults)?  Evaluating that constant sub-expression at run time would fault, so rejecting the
    program at compile time is what the property allows - also where the run-time twin never reaches it
    (`false and 1 / 0 > 0`, `if (false) { 1 % 0 }`)."""
    decls = [decl(t, name, lit, True) for name, (t, lit, _glob) in g.consts.items()]
    for _, e in exprs:
        for node in lang.walk(e):
            if node and node[0] == 'bin' and node[1] in ('/', '%') and all_const(node[3], g):
                probe = prog([], [func('empty', '@is_you', [], *decls, write(is_(node[3], 'int')))])
                try:
                    r = refmodel.run(probe, [], W)
                except Exception:   # noqa: BLE001
                    continue
                if r.outcome == 'ERROR' or (r.outcome == 'WIN' and r.output() == b'0'):
                    return True
    return False


def run_form(p, argv, W):
    src = render.program(p)
    b = build(src, W=W, stack=300, argv=argv)
    if b.prog is None:
        return src, b, None
    mon = Monitor()
    return src, b, run_svm(b.prog, monitor=mon, max_steps=500_000)


def judge(const_form, twin, argv, exprs, g, W):
    """-> (violations [(cls, detail, fingerprint)], info)"""
    out = []
    ref = refmodel.run(twin, argv, W)
    ref_c = refmodel.run(const_form, argv, W)
    info = {'ref': ref.outcome}
    if ref.outcome not in ('WIN', 'ERROR') or ref_c.history != ref.history:
        info['discard'] = 'reference disagrees with itself or is unspecified'
        return out, info
    tsrc, tb, tr = run_form(twin, argv, W)
    csrc, cb, cr = run_form(const_form, argv, W)
    info.update(tsrc=tsrc, csrc=csrc, cr=cr, tr=tr)
    # twin must behave like the reference (otherwise it is not a C14 matter, but still wrong)
    if tb.error_kind:
        out.append(('twin-' + tb.error_kind, tb.error, None))
    elif [tuple(e) for e in tr.history] != [tuple(e) for e in ref.history] or tr.verdicts:
        out.append(('twin-history', f'run-time twin: expected [{hist_text(ref.history)}] got [{hist_text(tr.history)}] {tr.verdicts[:1]}', None))
    ifs = list(getattr(g, 'ifs', [False] * len(exprs)))
    want = [tuple(e) for e in ref.history]
    fp = None
    if cb.error_kind == 'rejected':
        if ref.outcome == 'ERROR':
            info['accepted_rejection'] = True
            return out, info
        if exprs and const_zero_divisor(exprs, g, W):
            info['accepted_rejection'] = True
            info['unreached_zero_divisor'] = True
            return out, info
        pred = predict_known_defect(exprs, ifs, g, W, True) if exprs else None
        if pred == REJECT:
            fp = 'F4-fold-unbounded-int'
        out.append(('spurious-rejection', f'constant form rejected ({cb.error}) but its run-time twin runs without a fault '
                    f'and prints [{hist_text(ref.history)}]', fp))
        return out, info
    if cb.error_kind:
        out.append(('const-' + cb.error_kind, cb.error, None))
        return out, info
    got = [tuple(e) for e in cr.history]
    if got != want or cr.outcome != ref.outcome:
        pred = predict_known_defect(exprs, ifs, g, W, True) if exprs else REJECT
        observed = cr.output() + (b'<division_by_zero>' if cr.error_kind == 'division_by_zero' else b'')
        if pred != REJECT and observed == pred:
            fp = 'F4-fold-unbounded-int'
        out.append(('fold-visible', f'constant form prints [{hist_text(cr.history)}], its run-time twin (and the '
                    f'reference) [{hist_text(ref.history)}]', fp))
    for cls, pc, msg in cr.verdicts:
        out.append((cls, msg, None))
    return out, info


def count_foldable(e, g):
    n = 0
    for node in lang.walk(e):
        if node and node[0] in ('bin', 'un', 'is') and all_const(node, g):
            n += 1
    return n


def all_const(e, g):
    k = e[0]
    if k in ('int', 'chr', 'bool'):
        return True
    if k == 'var':
        return e[1] in g.consts
    if k == 'is':
        return all_const(e[1], g)
    if k == 'un':
        return all_const(e[2], g)
    if k == 'bin':
        return all_const(e[2], g) and all_const(e[3], g)
    return False


def case(seed, idx, tier):
    rnd = case_rng(seed, ID, idx)
    W = rnd.choice((2, 2, 3, 4))
    const_form, twin, argv, exprs, g = make_programs(rnd, W)
    res = common.new_result()
    viol, info = judge(const_form, twin, argv, exprs, g, W)
    res['key'] = digest(lang.dumps(const_form), argv, W)
    foldable = sum(count_foldable(e, g) for _, e in exprs)
    res['nontrivial'] = bool((foldable or not exprs) and info.get('cr') is not None and info.get('tr') is not None)
    if not exprs:
        res['counters']['spec_or_strindex_programs'] = 1
    res['counters'].update(foldable_operators=foldable, expressions=len(exprs),
                           runtime_leaves=len(g.runtime), const_vars=len(g.consts))
    res['counters'][f'word_size_{W}'] = 1
    res['outcomes']['ref:' + info['ref']] = 1
    if info.get('discard'):
        res['outcomes']['discarded'] = 1
    if info.get('unreached_zero_divisor'):
        res['outcomes']['rejected_for_a_constant_zero_divisor_the_twin_never_reaches'] = 1
    elif info.get('accepted_rejection'):
        res['outcomes']['rejected_and_twin_faults'] = 1
    for r in (info.get('cr'), info.get('tr')):
        if r is not None:
            res['counters']['svm_runs'] += 1
            res['counters']['svm_steps'] = res['counters'].get('svm_steps', 0) + r.steps
            res['counters'].setdefault('traces', []).append(r.trace_hash)
    res['digest'] = digest(res['key'], [(v[0], v[2]) for v in viol])
    if idx < 3:
        res['sample'] = {'constant_form': info.get('csrc'), 'twin': info.get('tsrc'), 'argv': argv, 'W': W,
                         'svm': hist_text(info['cr'].history) if info.get('cr') else None}
    for cls, detail, fp in viol[:1]:
        res['violations'].append({
            'cls': cls, 'detail': detail, 'fingerprint': fp,
            'payload': {'const_form': lang.to_json(const_form), 'twin': lang.to_json(twin), 'argv': argv, 'W': W,
                        'exprs': lang.to_json(tuple(exprs)),
                        'consts': {k: lang.to_json(v) for k, v in g.consts.items()},
                        'runtime': {k: list(v) for k, v in g.runtime.items()}, 'ifs': list(getattr(g, 'ifs', [])),
                        'const_src': info.get('csrc'), 'twin_src': info.get('tsrc')},
            'sample': {'constant_form': info.get('csrc'), 'argv': argv, 'W': W}})
    return res


class _G:
    pass


def replay(pl):
    g = _G()
    g.consts = {k: lang.from_json(v) for k, v in pl['consts'].items()}
    g.runtime = {k: tuple(v) for k, v in pl['runtime'].items()}
    g.ifs = pl.get('ifs', [])
    exprs = [tuple(x) for x in lang.from_json(pl['exprs'])]
    viol, _ = judge(lang.from_json(pl['const_form']), lang.from_json(pl['twin']), pl['argv'], exprs, g, pl['W'])
    return [{'cls': c, 'detail': d, 'fingerprint': fp} for c, d, fp in viol]
