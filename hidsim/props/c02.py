"""C02 - try/undo, try/stop, preempt and ?? follow their time-travel semantics."""
from .. import gen_tt, lang
from ..harness import case_rng
from ..runner import digest
from . import common, assignmatrix

ID = 'C02'
LEVEL = 'exploration'
TIERS = {
    'quick': {'cases': 204 + 1600, 'wall': 100, 'chunk': 8},
    'thorough': {'cases': 204 + 60000, 'wall': 1500, 'chunk': 16},
}
RULE = ('cases 0..203: the ASSIGNMENT MATRIX with ?? (seed independent): `v = E(v)` / `v += E(v)` / `int y = E(v)` / `f(E(v))` for a global, local '
        'and parameter variable with ?? inside E in seventeen shapes. Further cases: Random(f"{seed}:C02:{i}") picks a swarm configuration and generates a program whose '
        'you-functions contain 1-5 segments (try/undo and try/stop blocks - also inside loops, left by '
        'break/continue/return, with handlers that contain further tries - preempt blocks, defeat '
        'functions incl. preemptive and recursive ones, ?? with side-effecting operands, calls to '
        'you-helpers), each block opening with a marker write and each try followed by a dump of all '
        'variables/arrays and by a canary try/undo that calls a defeat function. The SVM resolves every '
        'Turing jump by speculation and rollback; the reference interpreter resolves the source-level '
        'choice points by newest-first backtracking; the two committed histories must be equal. Checked '
        'build always; unchecked build as well when the checked reference run is fault-free. '
        'distinct = hash(source, argv, W); non-trivial = the reference run resolved at least one '
        'source-level choice point (try, preempt, ?? or protected return).')
ASSUMPTIONS = [
    'SVM oracle semantics: newest-open-choice-first rollback, revisited (pc,state) never halts (calibrated on upstream tests and README examples)',
    'reference choice table of DESIGN 2.3 (my reading of the README)',
    'runs whose search exceeds the budget (5000 re-executions / 3e6 SVM steps) are counted as BUDGET and not judged',
]


AS_JOBS = assignmatrix.jobs(True)


def as_case(k):
    """`v = E(v)` / `v += E(v)` with ?? inside E, for global, local and parameter variables (seed independent)."""
    job = AS_JOBS[k]
    p, argv = assignmatrix.program(job, True)
    W = (2, 3, 4, 8)[k % 4]
    res = common.new_result()
    ecfg = dict(W=W, stack=1500, max_steps=1_000_000, style_seed=None, poison_seed=None)
    found, ev = common.problems_of(p, argv, ecfg)
    common.add_counters(res, ev)
    res['key'] = digest('as', *map(str, job))
    res['nontrivial'] = ev.res is not None
    res['counters']['assignment_matrix'] = 1
    if k == 0:
        res['sample'] = dict(common.sample_of(p, argv, ev, 900), job=f'assignment matrix with ?? {job}')
    res['digest'] = digest(res['key'], ev.res.history if ev.res is not None else None, found)
    if found:
        cls, detail = found[0][:2]
        res['violations'].append({'cls': cls, 'detail': f'assignment matrix {job}: {detail}', 'fingerprint': None,
                                  'payload': common.payload(p, argv, ev, {'assign_job': list(job)}),
                                  'sample': common.sample_of(p, argv, ev)})
    return res


def case(seed, idx, tier):
    if idx < len(AS_JOBS):
        return as_case(idx)
    idx -= len(AS_JOBS)
    rnd = case_rng(seed, ID, idx)
    cfg = gen_tt.swarm_cfg_tt(rnd)
    prog, argv = gen_tt.gen_tt_program(rnd, cfg)
    W = cfg['W']
    res = common.new_result()
    ecfg = dict(W=W, stack=1500, max_steps=3_000_000, style_seed=rnd.randrange(1 << 30) if idx % 2 else None,
                poison_seed=rnd.randrange(1 << 30) if idx % 5 == 0 else None)
    found, ev = common.problems_of(prog, argv, ecfg)
    common.add_counters(res, ev)
    res['key'] = digest(ev.src, argv, W)
    st = ev.ref.stats
    res['nontrivial'] = bool(ev.ref.outcome in ('WIN', 'ERROR', 'DIVERGE') and ev.ref.choice_points > 0
                             and ev.res is not None)
    res['counters']['ref'] = {k: v for k, v in st.items() if isinstance(v, int)}
    res['counters']['ref_reexecutions'] = ev.ref.reexecutions
    res['counters']['features'] = {f: 1 for f in gen_tt.TT_FEATURES if cfg.get(f)}
    res['max']['ref_reexecutions'] = ev.ref.reexecutions
    res['max']['choice_points'] = ev.ref.choice_points
    res['max']['stop_handler_depth'] = st.get('stop_handler_depth_max', 0)
    if ev.res is not None:
        res['max']['svm_choice_depth'] = ev.res.max_depth
        if ev.res.error_kind:
            res['faults_fired'][ev.res.error_kind] = 1
    bad_cfg = ecfg
    if not found and ev.ref.outcome in ('WIN', 'DIVERGE') and idx % 2 == 0:
        ucfg = dict(ecfg, unchecked=True)
        found, ev2 = common.problems_of(prog, argv, ucfg)
        common.add_counters(res, ev2)
        res['faults_fired']['unchecked'] = 1
        if found:
            ev, bad_cfg = ev2, ucfg
    res['digest'] = digest(res['key'], ev.res.history if ev.res is not None else None, found)
    if idx < 3:
        res['sample'] = common.sample_of(prog, argv, ev, 2500)
    if found:
        common.report(res, prog, argv, bad_cfg, found, ev, budget_s=25)
    return res


def replay(pl):
    return common.generic_replay(pl)
