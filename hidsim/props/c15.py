"""C15 - --unchecked changes nothing on fault-free runs."""
from .. import lang
from ..harness import case_rng
from ..runner import digest, hist_text
from . import common, progs

ID = 'C15'
LEVEL = 'exploration'
TIERS = {
    'quick': {'cases': 144 + 60 + 2400, 'wall': 100, 'chunk': 12},
    'thorough': {'cases': 144 + 60 + 80000, 'wall': 1500, 'chunk': 24},
}
RULE = ('cases 0..143: the PREEMPT MATRIX (seed independent) - a defeat function with a preempt block in each of 12 '
        'placements x {defeats itself, defeats conditionally, returns} x caller try/undo | try/stop x {followed by '
        'defeat, not}. Further cases: one seeded program from the union of all generators (time travel 40%, sequential 35%, '
        'sequential with a planted fault or its harmless twin 25%), compiled checked and --unchecked with '
        'the same word size, stack, argv and poison seed, both stepped on the SVM. When the checked run '
        'raises no error flag the unchecked run must commit the identical history (and must not halt or '
        'fault). distinct = hash(source, argv, W); non-trivial = the checked run was fault-free, executed '
        'at least one runtime guard (it took more instructions than the unchecked run) and both ran.')
ASSUMPTIONS = ['a checked run that ends in an error flag makes the unchecked build undefined: such cases are counted, not judged',
               'SVM as calibrated']
CLASSES = ('unchecked-differs', 'halt', 'machine-fault', 'internal-error', 'asm-error', 'ctrl')


def judge(p, argv, W, stack, poison):
    cfg = dict(W=W, stack=stack, poison_seed=poison, max_steps=2_000_000)
    evc = common.evaluate(p, argv, **cfg)
    out = []
    info = {'evc': evc, 'evu': None}
    if evc.res is None or evc.res.outcome not in ('WIN', 'DIVERGE'):
        info['skip'] = 'checked run not fault-free' if evc.res is not None else 'checked build failed'
        return out, info, cfg
    evu = common.evaluate(p, argv, ref=evc.ref, src=evc.src, **dict(cfg, unchecked=True))
    info['evu'] = evu
    for c, d in evu.problems:
        if c in CLASSES:
            out.append((c, 'unchecked build: ' + str(d)))
    if evu.res is not None and evu.res.outcome not in ('BUDGET', 'DEFEAT', 'MACHINE_FAULT'):
        a = [tuple(e) for e in evc.res.history]
        b = [tuple(e) for e in evu.res.history]
        if a != b or evc.res.outcome != evu.res.outcome:
            out.append(('unchecked-differs', f'checked {evc.res.outcome} [{hist_text(a)}] vs unchecked '
                                             f'{evu.res.outcome}/{evu.res.error_kind} [{hist_text(b)}]'))
    return out, info, cfg


# ---- preempt matrix (seed independent): a defeat function with a preempt block in each of twelve placements, that
# then defeats itself / defeats conditionally / returns, called from try/undo and try/stop, followed by defeat or not.
# Whether the preempt runs depends on the (virtual) defeat probe, which the two builds must lower alike.
def preempt_matrix():
    from .c05 import NLP_JOBS
    shapes = sorted({j[0] for j in NLP_JOBS})
    return [(sh, tail, kind, follow) for sh in shapes for tail in ('self_defeat', 'cond_defeat', 'return')
            for kind in ('undo', 'stop') for follow in ('defeat', 'nodefeat')]


PMATRIX = preempt_matrix()


def preempt_prog(job):
    from .c05 import nlp_prog
    from ..build import ex, call, bin_, V, I
    sh, tail, kind, follow = job
    t = {'self_defeat': (ex(call('!is_defeat')),), 'cond_defeat': (ex(call('!truth_is_defeat', bin_('>', V('a'), I(0)))),),
         'return': ()}[tail]
    return nlp_prog(sh, follow, kind, tail=t)


# ---- layout matrix (seed independent): a filled byte array, then a dynamic array of every element type with a
# boundary run-time length (for bool also the lengths within 8 of the largest signed word, on a stack that holds
# them), then a small int array; everything is written and read back.  The size arithmetic of the two builds must
# place the three arrays alike (after seeded change C15-11: a shorter size formula in unchecked builds only).
LMATRIX = [(el, n, W) for el in ('int', 'byte', 'bool', 'string') for n in ('0', '1', '7', '8', '9', '17') for W in (2, 3)]
LMATRIX += [('bool', n, W) for n in ('max-8', 'max-7', 'max-6', 'max-3', 'max-1', 'max') for W in (2, 3)]


def layout_job(job):
    from ..build import (I, S, V, B, C, call, ex, write, dyn, setv, block, if_, for_up, bin_, idx, ln, is_, func, prog, decl)
    el, n, W = job
    maxs = (1 << (8 * W - 1)) - 1
    v = maxs - int(n[4:]) if n.startswith('max-') else (maxs if n == 'max' else int(n))
    val = {'int': I(12345), 'byte': C('z'), 'bool': B(True), 'string': S('st')}[el]
    last = idx('d', bin_('-', ln('d'), I(1)))
    body = [dyn('byte', 'line', I(40)), for_up('i', I(0), I(40), setv(idx('line', V('i')), is_(bin_('+', bin_('%', V('i'), I(26)), I(65)), 'byte'))),
            dyn(el, 'd', V('fz')),
            if_(bin_('>', ln('d'), I(0)), block(setv(idx('d', I(0)), val), setv(last, val))),
            dyn('int', 'c', I(2)), setv(idx('c', I(0)), I(11111)), setv(idx('c', I(1)), I(22222)),
            for_up('i', I(0), I(40), write(idx('line', V('i')))), write(S('|')), write(ln('d')), write(S('|')),
            if_(bin_('>', ln('d'), I(0)), block(write(idx('d', I(0))), write(last))),
            write(S('|')), write(idx('c', I(0))), write(idx('c', I(1)))]
    stack = (v >> 3) // W + 700 if v > 1000 else 700
    return prog([], [func('empty', '@is_you', [('int', 'fz')], *body)]), [str(v)], stack


def case(seed, idx, tier):
    rnd = case_rng(seed, ID, idx)
    fixed_stack = None
    if idx < len(PMATRIX):
        p, argv = preempt_prog(PMATRIX[idx])
        W, kind = (2, 3, 4, 8)[idx % 4], 'preempt_matrix'
    elif idx < len(PMATRIX) + len(LMATRIX):
        job = LMATRIX[idx - len(PMATRIX)]
        p, argv, fixed_stack = layout_job(job)
        W, kind = job[2], 'layout_matrix'
    else:
        p, argv, W, kind = progs.draw(rnd)
    poison = rnd.randrange(1 << 30) if idx % 3 == 0 else None
    stack = rnd.choice((common.GENEROUS, 1500, 800))
    if fixed_stack is not None:
        stack = fixed_stack
    res = common.new_result()
    viol, info, cfg = judge(p, argv, W, stack, poison)
    evc, evu = info['evc'], info['evu']
    common.add_counters(res, evc)
    res['key'] = digest(evc.src, argv, W)
    res['counters']['kind_' + kind.split(':')[0]] = 1
    if evu is not None:
        common.add_counters(res, evu)
        if evc.res is not None and evu.res is not None:
            g = evc.res.steps - evu.res.steps
            res['counters']['guard_instructions_executed'] = max(g, 0)
            res['nontrivial'] = g > 0
    else:
        res['outcomes']['skipped:' + info.get('skip', '?')] = 1
    res['faults_fired']['unchecked'] = 1 if evu is not None else 0
    res['digest'] = digest(res['key'], evu.res.history if evu is not None and evu.res is not None else None, viol)
    if idx < 2:
        res['sample'] = common.sample_of(p, argv, evc, 1500)
    if viol:
        cls, detail = viol[0]

        def runner(pp, aa):
            v, _, _ = judge(pp, aa, W, stack, poison)
            return v
        mp, ma, tests = common.minimise(p, argv, {cls}, runner, budget_s=15)
        v2, info2, _ = judge(mp, ma, W, stack, poison)
        if not any(c == cls for c, _ in v2):
            mp, ma, v2, info2 = p, argv, viol, info
        d2 = next(d for c, d in v2 if c == cls)
        res['violations'].append({'cls': cls, 'detail': d2, 'fingerprint': None,
                                  'payload': common.payload(mp, ma, info2['evu'] or info2['evc'],
                                                            {'stack': stack, 'poison': poison, 'shrink_tests': tests}),
                                  'sample': common.sample_of(mp, ma, info2['evc'])})
    return res


def replay(pl):
    p = lang.from_json(pl['prog'])
    viol, _, _ = judge(p, pl['argv'], pl['cfg']['W'], pl['stack'], pl['poison'])
    return [{'cls': c, 'detail': d, 'fingerprint': None} for c, d in viol]
