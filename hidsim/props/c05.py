"""C05 - runtime faults are detected exactly, first, and terminally."""
import itertools

from .. import gen, gen_tt, faults, lang
from ..build import *   # noqa: F401,F403
from ..harness import case_rng
from ..runner import digest
from . import common

ID = 'C05'
LEVEL = 'fault_enumeration'
RULE = ('systematic part: the full product {/, %, /=, %=} x {int, byte operand types} x divisor {0, 1, -1, 2}; '
        '{read, write, compound write} x {int, byte, bool arrays, strings} x {local literal, dynamic, global '
        'literal, global dynamic, parameter, argv, const, alias} x index {len-1, len, -1, 0, max, min, len+1}; '
        'dynamic lengths {-1, -7, -8, 0, 1, max_length, max_length+1, min} x {int, byte, bool, string} x '
        '{local, inside callee, inside loop}; preemptive defeat functions (preempt directly / in for / in '
        'while / in nested if / unreachable) x {defeat follows, defeat averted by a later preempt, no defeat} '
        'x {try/undo, try/stop}. seeded part: the same faults planted at seeded statement positions of '
        'generated programs (inside loops, callees, array-literal construction), each with the triggering '
        'input and with its nearest harmless input. oracle: committed history equals the reference '
        'interpreter, which raises the same faults from the source semantics: flags [kind, error], nothing '
        'after, everything before intact; no error flag in the harmless twin. distinct = hash(source, argv, '
        'W); non-trivial = the case executed the operation under test (fault fired, or harmless twin won).')
ASSUMPTIONS = ['a negative or unrepresentable dynamic length is reported as stack_overflow (implementation and upstream tests)',
               'the order between an index check and a side-effecting right-hand side is never made observable',
               'SVM and reference model as for C01/C02']

DIV_JOBS = [(op, t, d) for op in ('/', '%', '/=', '%=') for t in ('int', 'byte') for d in (0, 1, -1, 2)]
# run-time dividend, divisor known at compile time (literal, folded expression, const variable, const global)
DIV_JOBS += [(op, 'const:' + how, d) for op in ('/', '%', '/=', '%=', 'elem/=', 'elem%=')
             for how in ('literal', 'folded', 'constvar', 'constglobal') for d in (0, 3)]
STORAGES = ('literal', 'dynamic', 'gliteral', 'gdynamic', 'param', 'argv', 'const', 'alias')
IDX_JOBS = [(acc, el, st, ix) for acc in ('read', 'write', 'aug') for el in ('int', 'byte', 'bool', 'string')
            for st in STORAGES for ix in ('len-1', 'len', '-1', '0', 'max', 'min', 'len+1', 'nar:len-1', 'nar:len', 'nar:0')
            if not (acc != 'read' and (st == 'const' or el == 'string' and st in ('argv',)))
            and not (acc == 'aug' and el in ('bool', 'string'))
            and not (el in ('bool',) and st == 'argv')]
# every length at every word size: 'wrapJ' is the smallest n with n * word_size >= J * 2^(8 * word_size), i.e. a
# positive length whose byte size wraps around to a small number (only where such an n is representable)
LEN_JOBS = [(el, n, where, W) for el in ('int', 'byte', 'bool', 'string')
            for n in ('-1', '-7', '-8', '0', '1', 'maxlen', 'maxlen+1', 'min', 'max', 'wrap1', 'wrap2', 'wrap3', 'wrap1+1')
            for where in ('local', 'callee', 'loop') for W in (2, 3, 4, 8)
            if not (n.startswith('wrap') and where != 'local' and W == 2)]
# bool arrays whose length is within 7 of the largest signed word fit a big enough stack (ceil(n / 8) bytes) and must
# then be allocated, not reported as stack_overflow: the size computation must not overflow on n + 7
LEN_JOBS += [('bool', n, 'bigstack', W) for n in ('max-8', 'max-7', 'max-6', 'max-3', 'max-1', 'max') for W in (2, 3)]
# negative lengths at the LARGEST stack size the compiler accepts at this word size (found by bisection against the
# compiler itself, so the job follows whatever limit the tree under test enforces): a negative byte length is only
# caught by the unsigned space guard, which is sound only while the free stack stays below 2^(bits-1) bytes
LEN_JOBS += [(el, n, 'maxstack', 2) for el in ('byte', 'int', 'bool', 'string')
             for n in ('-1', '-8', 'neg:100', 'neg:9000', 'neg:20000', 'neg:30000', 'neg:32000', 'min', 'min+1')]
NLP_JOBS = [(shape, follow, kind) for shape in ('direct', 'in_for', 'in_while', 'in_if', 'in_else', 'in_elif',
                                                 'in_block', 'in_for_if', 'in_while_else', 'after_return',
                                                 'unreachable', 'none')
            for follow in ('defeat', 'averted', 'nodefeat') for kind in ('undo', 'stop')]
N_FIXED = len(DIV_JOBS) + len(IDX_JOBS) + len(LEN_JOBS) + len(NLP_JOBS)
TIERS = {
    'quick': {'cases': N_FIXED + 500, 'wall': 100, 'chunk': 16},
    'thorough': {'cases': N_FIXED + 30000, 'wall': 1200, 'chunk': 32},
}


_MAXSTACK = {}


def largest_accepted_stack(W):
    """Largest -s value the compiler under test accepts at this word size (bisection on accept / reject)."""
    if W not in _MAXSTACK:
        from ..runner import build
        src = 'empty @is_you() { }'
        lo, hi = 1, 1 << (8 * W)
        while lo < hi:
            mid = (lo + hi + 1) // 2
            if build(src, W=W, stack=mid).error_kind == 'rejected':
                hi = mid - 1
            else:
                lo = mid
        _MAXSTACK[W] = lo
    return _MAXSTACK[W]


def W_of(idx):
    return (2, 3, 4, 8)[idx % 4]


def const_div_prog(op, how, d):
    glob = []
    pre = []
    if how == 'literal':
        dz = I(d)
    elif how == 'folded':
        dz = bin_('-', I(d + 2), I(2))
    elif how == 'constvar':
        pre.append(decl('int', 'scale', I(d), True))
        dz = V('scale')
    else:
        glob.append(decl('int', 'scale', I(d), True))
        dz = V('scale')
    body = [write(S('a'))] + pre
    if op in ('/', '%'):
        body += [write(bin_(op, V('x'), dz)), write(S('b'))]
    elif op in ('/=', '%='):
        body += [decl('int', 'acc', V('x')), aug(op[0], 'acc', dz), write(V('acc')), write(S('b'))]
    else:
        body += [decl(arr('int'), 'cells', ('arr', (V('x'), I(5))), True), aug(op[4], idx('cells', I(0)), dz),
                 write(idx('cells', I(0))), write(S('b'))]
    return prog(glob, [func('empty', '@is_you', [('int', 'x'), ('int', 'z')], *body)]), ['77', '9']


def div_prog(op, t, d):
    if t.startswith('const:'):
        return const_div_prog(op, t[6:], d)
    body = [write(S('a'))]
    if t == 'byte':
        body.append(decl('byte', 'dv', is_(V('z'), 'byte')))
        dz = V('dv')
    else:
        dz = V('z')
    if op in ('/', '%'):
        body += [write(bin_(op, V('x'), dz)), write(S('b'))]
    else:
        body += [decl(t, 'acc', is_(V('x'), 'byte') if t == 'byte' else V('x')),
                 aug(op[0], 'acc', dz), write(is_(V('acc'), 'int')), write(S('b'))]
    return prog([], [func('empty', '@is_you', [('int', 'x'), ('int', 'z')], *body)]), ['77', str(d)]


def elem_lit(el, i):
    if el == 'int':
        return I(i * 3 + 1)
    if el == 'byte':
        return I((i * 41 + 7) & 0xFF)
    if el == 'bool':
        return B(i % 3 == 0)
    return S(f's{i}')


def idx_value(ix, L, W):
    """'nar:X': the index is written `(fz + 256) is byte` with fz = X + 256: a computed word value of 512 + X
    narrowed to the byte X - the bounds check must see X, not the word"""
    if ix.startswith('nar:'):
        return idx_value(ix[4:], L, W)
    maxs = (1 << (8 * W - 1)) - 1
    return {'len-1': L - 1, 'len': L, '-1': -1, '0': 0, 'max': maxs, 'min': -maxs - 1, 'len+1': L + 1}[ix]


def idx_prog(acc, el, st, ix, W, L):
    """The array/string `s` of length L lives in storage class st; fz is the index."""
    glob, pre, funcs = [], [], []
    params = [('int', 'fz')]
    argv = [str(idx_value(ix, L, W) + (256 if ix.startswith('nar:') else 0))]
    t_el = 'byte' if el == 'string' and False else el
    lits = tuple(elem_lit(el, i) for i in range(L))
    use_string_scalar = False
    if el == 'string' and st in ('literal', 'const', 'gliteral', 'param', 'alias', 'argv') and acc == 'read' and L > 0 and (L % 2 == 1):
        # index a string value (bytes) rather than an array of strings
        use_string_scalar = True
    if use_string_scalar:
        text = S(bytes((0x41 + i) & 0xFF for i in range(L)))
        if st == 'gliteral':
            glob.append(decl('string', 's', text))
        elif st == 'argv':
            params.append(('string', 's'))
            argv.append(''.join(chr(0x41 + i) for i in range(L)))
        else:
            pre.append(decl('string', 's', text, st == 'const'))
        target_t = 'string'
    else:
        target_t = arr(el, st == 'const')
        if st in ('literal', 'const'):
            pre.append(decl(arr(el, st == 'const'), 's', ('arr', lits), True))
        elif st == 'alias':
            pre += [decl(arr(el), 's0', ('arr', lits), True), decl(arr(el), 's', V('s0'), True)]
        elif st == 'dynamic':
            pre += [dyn(el, 's', I(L)), for_up('k', I(0), ln('s'), setv(idx('s', V('k')), elem_lit(el, 0)))]
        elif st == 'gliteral':
            glob.append(decl(arr(el), 's', ('arr', lits), True))
        elif st == 'gdynamic':
            glob.append(dyn(el, 's', I(L)))
            pre.append(for_up('k', I(0), ln('s'), setv(idx('s', V('k')), elem_lit(el, 0))))
        elif st == 'param':
            pre.append(decl(arr(el), 's0', ('arr', lits), True))
        elif st == 'argv':
            params.append((arr(el, el == 'string'), 's'))
            argv += [('w%d' % i if el == 'string' else str((i * 7 + 1) & 0xFF)) for i in range(L)]
    item = idx('s', is_(bin_('+', V('fz'), I(256)), 'byte') if ix.startswith('nar:') else V('fz'))
    shown = write(is_(item, 'int')) if (el == 'byte' or use_string_scalar) else write(item)
    if acc == 'read':
        op = [shown]
    elif acc == 'write':
        op = [setv(item, elem_lit(el, 1)), shown]
    else:
        op = [aug('+', item, I(3)), shown]
    core = [write(S('a')), *op, write(S('b'))]
    if st == 'param' and not use_string_scalar:
        funcs.append(func('empty', 'touch', [(arr(el), 's'), ('int', 'fz')], *core))
        body = pre + [write(S('p')), ex(call('touch', V('s0'), V('fz'))), write(S('q'))]
    elif st == 'param':
        funcs.append(func('empty', 'touch', [('string', 's'), ('int', 'fz')], *core))
        body = pre + [write(S('p')), ex(call('touch', V('s'), V('fz'))), write(S('q'))]
    else:
        body = pre + core
    return prog(glob, funcs + [func('empty', '@is_you', params, *body)]), argv


def len_value(n, el, W):
    maxs = (1 << (8 * W - 1)) - 1
    maxlen = maxs if el in ('byte', 'bool') else maxs // W
    if n.startswith('max-'):
        return maxs - int(n[4:])
    if n.startswith('neg:'):
        return -int(n[4:])
    if n == 'min+1':
        return -maxs
    if n.startswith('wrap'):
        j = int(n[4])
        v = -((-j << (8 * W)) // W) + (1 if n.endswith('+1') else 0)
        return v if v <= maxs else maxs - j
    return {'-1': -1, '-7': -7, '-8': -8, '0': 0, '1': 1, 'maxlen': maxlen, 'maxlen+1': maxlen + 1,
            'min': -maxs - 1, 'max': maxs}[n]


def len_prog(el, n, where, W):
    core = [write(S('a')), dyn(el, 'd', V('fz')), write(ln('d')), write(S('b'))]
    if where == 'callee':
        funcs = [func('empty', 'mk', [('int', 'fz')], *core)]
        body = [write(S('p')), ex(call('mk', V('fz'))), write(S('q'))]
    elif where == 'loop':
        funcs = []
        body = [for_up('k', I(0), I(2), write(V('k')), block(*core))]
    else:
        funcs = []
        body = core
        if where == 'bigstack':
            last = idx('d', bin_('-', ln('d'), I(1)))
            body = core + [setv(last, B(True)), write(last), setv(idx('d', I(0)), B(False)), write(idx('d', I(0)))]
    return prog([], funcs + [func('empty', '@is_you', [('int', 'fz')], *body)]), [str(len_value(n, el, W))]


def nlp_prog(shape, follow, kind, tail=()):
    pre = preempt(write(S('P')), setv('flag', I(1)))
    inner = {
        'direct': [pre],
        'in_for': [for_up('k', I(0), I(1), pre)],
        'in_while': [decl('int', 'n', I(1)), while_(bin_('>', V('n'), I(0)), aug('-', 'n', I(1)), pre)],
        'in_if': [if_(bin_('>=', V('a'), I(0)), block(pre))],
        'in_else': [if_(bin_('<', V('a'), I(0)), block(write(S('n'))), block(pre))],
        'in_elif': [if_(bin_('<', V('a'), I(0)), block(write(S('n'))),
                        block(if_(bin_('==', V('a'), I(99)), block(write(S('m'))), block(pre))))],
        'in_block': [block(block(pre))],
        'in_for_if': [for_up('k', I(0), I(2), if_(bin_('==', V('k'), I(1)), block(pre)))],
        'in_while_else': [decl('int', 'n', I(1)),
                          while_(bin_('>', V('n'), I(0)), aug('-', 'n', I(1)),
                                 if_(bin_('>', V('n'), I(5)), block(write(S('x'))), block(pre)))],
        'after_return': [if_(bin_('>', V('a'), I(100)), block(ret())), pre],
        'unreachable': [if_(B(False), block(preempt()))],
        'none': [],
    }[shape]
    d = func('empty', '!pd', [('int', 'a')], decl('int', 'flag', I(0)), write(S('d')), *inner, write(V('flag')), *tail)
    body = [write(S('t')), ex(call('!pd', V('q')))]
    if follow == 'defeat':
        body.append(ex(call('!is_defeat')))
    elif follow == 'averted':
        body += [decl('int', 'late', I(0)), preempt(setv('late', I(1))),
                 ex(call('!truth_is_defeat', bin_('==', V('late'), I(0)))), write(S('ok'))]
    else:
        body.append(write(S('ok')))
    main = func('empty', '@is_you', [('int', 'q')],
                try_(block(*body), kind, block(write(S('h')))), write(S('e')))
    return prog([], [d, main]), ['3']


def fixed_job(idx):
    W = W_of(idx)
    if idx < len(DIV_JOBS):
        op, t, d = DIV_JOBS[idx]
        p, argv = div_prog(op, t, d)
        return f'div {op} {t} divisor={d}', p, argv, W, ('division_by_zero' if d == 0 else None)
    idx -= len(DIV_JOBS)
    if idx < len(IDX_JOBS):
        acc, el, st, ix = IDX_JOBS[idx]
        L = (1, 3, 8, 9, 17)[idx % 5]
        p, argv = idx_prog(acc, el, st, ix, W, L)
        v = idx_value(ix, L, W)
        return f'index {acc} {el} {st} idx={ix} len={L}', p, argv, W, (None if 0 <= v < L else 'out_of_bounds')
    idx -= len(IDX_JOBS)
    if idx < len(LEN_JOBS):
        el, n, where, W = LEN_JOBS[idx]
        p, argv = len_prog(el, n, where, W)
        v = len_value(n, el, W)
        fits = v in (0, 1) or where == 'bigstack'
        return f'length {el} n={n} {where} W={W}', p, argv, W, (None if fits else 'stack_overflow')
    idx -= len(LEN_JOBS)
    shape, follow, kind = NLP_JOBS[idx]
    p, argv = nlp_prog(shape, follow, kind)
    exp = 'nonlocal_preempt' if (shape != 'none' and follow == 'defeat') else None
    return f'nonlocal_preempt {shape} {follow} {kind}', p, argv, W, exp


def seeded_job(seed, idx):
    rnd = case_rng(seed, ID, idx)
    W = rnd.choice((2, 2, 3, 4, 8))
    kind = rnd.choice(faults.KINDS)
    trigger = rnd.random() < 0.6
    for _ in range(5):
        if rnd.random() < 0.25:
            cfg = gen_tt.swarm_cfg_tt(rnd, W=W)
            base, argv = gen_tt.gen_tt_program(rnd, cfg)
        else:
            cfg = gen.swarm_cfg(rnd, W=W)
            base, argv = gen.gen_program(rnd, cfg)
        p, info = faults.plant(rnd, base, kind, W, trigger)
        if p is not None:
            return f'planted {kind} trigger={trigger}', p, argv, W, info
    return None


def case(seed, idx, tier):
    res = common.new_result()
    if idx < N_FIXED:
        label, p, argv, W, expect = fixed_job(idx)
        info = None
    else:
        j = seeded_job(seed, idx)
        if j is None:
            res['key'] = f'none{idx}'
            return res
        label, p, argv, W, info = j
        expect = None
    # length jobs use a stack smaller than any 'maxlen' array of any element type, so
    # that the verdict does not depend on where exactly 'unrepresentably large' begins
    # for bool arrays (README silent; DESIGN section 7)
    ecfg = dict(W=W, stack=1200 if label.startswith('length') else 2500, max_steps=2_000_000)
    if ' bigstack ' in label:
        ecfg['stack'] = ((1 << (8 * W - 1)) >> 3) // W + 600
    if ' maxstack ' in label:
        ecfg['stack'] = largest_accepted_stack(W)
        res['max']['largest_accepted_stack_words'] = ecfg['stack']
    found, ev = common.problems_of(p, argv, ecfg)
    common.add_counters(res, ev)
    res['key'] = digest(ev.src, argv, W)
    fired = ev.res.error_kind if ev.res is not None and ev.res.outcome == 'ERROR' else None
    if fired:
        res['faults_fired'][fired] = 1
    res['nontrivial'] = bool(ev.res is not None and ev.ref.outcome in ('WIN', 'ERROR', 'DIVERGE'))
    res['counters']['fixed_jobs' if idx < N_FIXED else 'seeded_jobs'] = 1
    res['counters']['job_' + label.split()[0]] = 1
    if info is not None:
        for k in ('in_loop', 'in_callee', 'in_try'):
            if info.get(k):
                res['probes'][f'planted_{k}'] = 1
        if fired and info['trigger'] and fired == info['flag']:
            res['probes']['planted_fault_fired'] = 1
    # the matrix knows what must happen independently of the reference model
    if idx < N_FIXED and not found and ev.ref.outcome in ('WIN', 'ERROR'):
        ref_kind = ev.ref.error_kind if ev.ref.outcome == 'ERROR' else None
        if ref_kind != expect:
            raise AssertionError(f'{label}: matrix expects {expect}, reference model says {ref_kind}')
    res['digest'] = digest(res['key'], ev.res.history if ev.res is not None else None, found)
    if idx in (1, len(DIV_JOBS) + 9, N_FIXED - 3, N_FIXED + 1):
        res['sample'] = dict(common.sample_of(p, argv, ev, 1500), job=label)
    if found:
        fp = None
        common.report(res, p, argv, ecfg, found, ev, fingerprint=fp, extra={'job': label}, budget_s=10)
    return res


def finalize(cov, agg):
    cov['matrix_complete'] = agg['counters'].get('fixed_jobs', 0) == N_FIXED
    cov['matrix_size'] = {'division': len(DIV_JOBS), 'index': len(IDX_JOBS), 'length': len(LEN_JOBS),
                          'nonlocal_preempt': len(NLP_JOBS)}
    cov['exhaustive'] = False


def replay(pl):
    return common.generic_replay(pl)
