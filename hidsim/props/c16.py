"""C16 - control never runs off the end of a function."""
from .. import lang
from ..build import *   # noqa: F401,F403
from ..harness import case_rng
from ..runner import digest
from . import common

ID = 'C16'
LEVEL = 'exploration'
TIERS = {
    'quick': {'cases': 1500, 'wall': 100, 'chunk': 10},
    'thorough': {'cases': 60000, 'wall': 1500, 'chunk': 20},
}
RULE = ('case i: three generated functions (ordinary, you, defeat; value-returning or empty) whose bodies are '
        'random compositions of the shapes the exit analysis reasons about - constant-true loops with and '
        'without break, conditional loops, if/else with exits on one or both arms, try/undo and try/stop with '
        'returns / defeat / terminal calls in body and handler, preempt blocks holding the only return, '
        'statements after break/continue/return/!is_defeat()/all_is_win(), nested loops - including shapes '
        'that must be rejected. hidc may reject (conservatism is not judged); when it accepts, the program is '
        'run for every selector q in 0..3: M-ctrl must stay silent (no sequential arrival at a function entry, '
        'pc never leaves the code), the committed history must equal the reference interpreter\'s - which '
        'executes every source statement, so a statement hidc dropped as unreachable but that does run shows '
        'up as a missing effect - and the reference run must never reach the end of a value-returning '
        'function. distinct = hash(source, W); non-trivial = hidc accepted and at least one run executed.')
ASSUMPTIONS = ['reference model executes every statement of the source; it knows nothing about reachability',
               'SVM M-ctrl: function entries = pc 0, code addresses stored as data, targets of "lower fp; j L; halt"']
CLASSES = common.ALL_CLASSES + ('accepted-fall-off',)


class G16:
    def __init__(self, rnd):
        self.rnd = rnd
        self.m = 0
        self.n = 0

    def mark(self):
        self.m += 1
        return write(S(f'<{self.m}>'))

    def nm(self, p):
        self.n += 1
        return f'{p}{self.n}'

    def cond(self):
        r = self.rnd
        return bin_(r.choice(('==', '!=', '<', '>=')), bin_('%', bin_('+', V('q'), V('z')), I(r.choice((2, 3, 4)))),
                    I(r.randrange(0, 3)))

    def exit(self, ctx):
        """An exit statement legal in ctx."""
        r = self.rnd
        opts = ['ret', 'ret']
        if ctx['loop']:
            opts += ['break', 'cont']
        if ctx['defeat']:
            opts += ['defeat']
        if r.random() < 0.05:
            opts += ['win']
        if r.random() < 0.12:
            opts += ['fakewin', 'fakewin']
        c = r.choice(opts)
        if c == 'ret':
            return ret(None if ctx['ret'] == 'empty' else bin_('+', V('z'), I(r.randrange(100))))
        if c == 'break':
            return ('break',)
        if c == 'cont':
            return ('cont',)
        if c == 'defeat':
            return ex(call('!is_defeat'))
        if c == 'fakewin':
            # user overloads of the terminal names return normally
            self.fake = True
            return ex(call(r.choice(('all_is_win', 'all_is_broken')), V('z')))
        return ex(call('all_is_win'))

    def stmts(self, depth, ctx, n=None):
        r = self.rnd
        out = []
        for _ in range(n if n is not None else r.randrange(1, 4)):
            c = r.randrange(15)
            if c == 14 and depth > 0:
                # a loop that never runs (constant-false condition): what follows it is reachable
                lctx = dict(ctx, loop=True)
                cond = r.choice((B(False), bin_('==', I(1), I(2)), ('un', 'not', B(True)), bin_('>', I(1), I(2))))
                inner = self.stmts(depth - 1, lctx)
                if r.random() < 0.3:
                    out.append(('for', None, cond, None, block(*inner)))
                else:
                    out.append(while_(cond, *inner))
                out.append(self.mark())
            elif c < 3 or depth <= 0:
                out += [self.mark(), aug('+', 'z', I(1))]
            elif c < 5:
                out.append(if_(self.cond(), block(*self.stmts(depth - 1, ctx)),
                               block(*self.stmts(depth - 1, ctx)) if r.random() < 0.6 else None))
            elif c == 5:
                out.append(if_(self.cond(), block(self.mark(), self.exit(ctx)),
                               block(self.mark(), self.exit(ctx)) if r.random() < 0.5 else None))
            elif c == 6:
                # constant-true loop with a guaranteed way out
                k = self.nm('n')
                lctx = dict(ctx, loop=True)
                inner = [aug('+', k, I(1)),
                         if_(bin_('>=', V(k), I(r.randrange(1, 4))),
                             block(self.mark(), r.choice([('break',), ret(None if ctx['ret'] == 'empty' else V(k))]))),
                         *self.stmts(depth - 1, lctx)]
                cond = r.choice((B(True), B(True), bin_('==', I(1), I(1)), None))
                out.append(decl('int', k, I(0)))
                if cond is None:
                    out.append(('for', None, None, None, block(*inner)))
                else:
                    out.append(while_(cond, *inner))
            elif c == 7:
                k = self.nm('i')
                lctx = dict(ctx, loop=True)
                out.append(for_up(k, I(0), I(r.randrange(0, 4)), *self.stmts(depth - 1, lctx)))
            elif c == 8 and ctx['you']:
                kind = r.choice(('undo', 'stop'))
                tctx = dict(ctx, you=False, defeat=True)
                body = self.stmts(depth - 1, tctx)
                k = r.random()
                if k < 0.35:
                    # the only defeat of the body sits inside an expression
                    self.need_pick = True
                    pc = call('!pick', V('z'), V('q'))
                    body = [self.mark()] + [r.choice([
                        ret(None if ctx['ret'] == 'empty' else pc) if ctx['ret'] != 'empty' else decl('int', self.nm('w'), pc),
                        decl('int', self.nm('w'), pc),
                        if_(bin_('>', pc, I(1)), block(self.mark())),
                        aug('+', 'z', pc)])]
                    if r.random() < 0.5:
                        body.append(self.exit(tctx))
                elif k < 0.65:
                    body.append(ex(call('!truth_is_defeat', self.cond())))
                if 0.35 <= k and r.random() < 0.4:
                    body.append(ex(call('!is_defeat')))
                handler = self.stmts(depth - 1, ctx)
                if ctx['loop'] and r.random() < 0.4:
                    handler.append(r.choice([('cont',), ('break',)]))
                out.append(try_(block(*body), kind, block(*handler)))
            elif c == 9 and ctx['you'] and r.random() < 0.6:
                # retry loop: the body never completes normally; its only continue is in the handler
                self.need_pick = True
                k = self.nm('n')
                rv = None if ctx['ret'] == 'empty' else V(k)
                guard = if_(bin_('>=', V(k), I(r.randrange(2, 5))), block(self.mark(), ret(rv)))
                if r.random() < 0.5:
                    loop = while_(B(True), aug('+', k, I(1)), guard,
                                  try_(block(aug('+', 'z', call('!pick', V('z'), V(k))), self.mark(), ret(rv)),
                                       r.choice(('stop', 'undo')), block(self.mark(), ('cont',))))
                else:
                    # the try falls through when it does not defeat; the body then ends in a return
                    loop = while_(B(True), aug('+', k, I(1)), guard,
                                  try_(block(ex(call('!pick', V('z'), V(k))), self.mark()),
                                       r.choice(('stop', 'undo')), block(self.mark(), aug('+', 'z', I(1)), ('cont',))),
                                  self.mark(), ret(rv))
                out += [decl('int', k, I(0)), loop]
            elif c == 9 and ctx['defeat']:
                out.append(preempt(*self.stmts(depth - 1, ctx)))
            elif c == 10 and ctx['defeat']:
                out.append(ex(call('!truth_is_defeat', self.cond())))
            elif c == 11:
                out.append(self.exit(ctx))
            elif c == 12:
                out.append(block(*self.stmts(depth - 1, ctx)))
            else:
                out += [self.mark()]
        return out

    def func(self, flavor, rt):
        name = {'ord': 'fo', 'you': '@fy', 'def': '!fd'}[flavor]
        ctx = {'loop': False, 'you': flavor == 'you', 'defeat': flavor == 'def', 'ret': rt}
        body = [decl('int', 'z', V('q'))] + self.stmts(3, ctx, n=self.rnd.randrange(2, 5))
        r = self.rnd.random()
        if rt != 'empty' and r < 0.6:
            body.append(ret(bin_('+', V('z'), I(1000))))
        elif rt == 'empty' and r < 0.2:
            body.append(ret())
        return func(rt, name, [('int', 'q')], *body)

    def build(self):
        r = self.rnd
        fs = []
        calls = []
        for flavor in ('ord', 'you', 'def'):
            rt = r.choice(('int', 'int', 'empty'))
            f = self.func(flavor, rt)
            fs.append(f)
            name = f[2]
            c = call(name, V('q'))
            show = [write(c), write(C(';'))] if rt == 'int' else [ex(c), write(C(';'))]
            if flavor == 'def':
                show = [try_(block(*show, write(C('k'))), r.choice(('undo', 'stop')), block(write(C('h'))))]
            calls += show
        main = func('empty', '@is_you', [('int', 'q')], *calls, write(S('END')))
        extra = []
        if getattr(self, 'need_pick', False):
            extra.append(func('int', '!pick', [('int', 'a'), ('int', 'b')],
                              ex(call('!truth_is_defeat', bin_('==', bin_('%', bin_('+', V('a'), V('b')), I(2)), I(1)))),
                              ret(bin_('+', V('a'), I(1)))))
        if getattr(self, 'fake', False):
            extra = [func('empty', 'all_is_win', [('int', 'p')], write(S('(w)'))),
                     func('empty', 'all_is_broken', [('int', 'p')], write(S('(b)')))]
        return prog([], extra + fs + [main])


def judge(p, W):
    out = []
    info = {'accepted': None, 'evs': [], 'runs': 0}
    for q in range(4):
        argv = [str(q)]
        ev = common.evaluate(p, argv, W=W, stack=800, max_steps=400_000)
        info['evs'].append(ev)
        if ev.built.error_kind == 'rejected':
            info['accepted'] = False
            return out, info
        info['accepted'] = True
        probs = [(c, d) for c, d in ev.problems if c in common.ALL_CLASSES and c != 'rejected-valid-program']
        if ev.ref.outcome == 'FELLOFF':
            probs.append(('accepted-fall-off', f'q={q}: hidc accepted the program but {ev.ref.why}; '
                          f'SVM: {ev.res.outcome if ev.res else None}'))
        h = common.history_problem(ev)
        if h:
            probs.append(h)
        if ev.res is not None:
            info['runs'] += 1
        out += [(c, f'q={q}: {d}', argv, ev) for c, d in probs]
        if out:
            break
    return out, info


def case(seed, idx, tier):
    rnd = case_rng(seed, ID, idx)
    W = rnd.choice((2, 2, 3, 4))
    p = G16(rnd).build()
    res = common.new_result()
    viol, info = judge(p, W)
    ev0 = info['evs'][0]
    res['key'] = digest(ev0.src, W)
    res['nontrivial'] = bool(info['accepted'] and info['runs'])
    res['counters']['accepted' if info['accepted'] else 'rejected'] = 1
    for ev in info['evs']:
        if ev.res is not None:
            common.add_counters(res, ev)
        if ev.ref.outcome == 'FELLOFF' and not info['accepted']:
            res['probes']['rejected_program_that_would_fall_off'] = 1
    res['digest'] = digest(res['key'], info['accepted'], [(v[0], v[1]) for v in viol])
    if idx < 3:
        res['sample'] = dict(common.sample_of(p, ['0'], ev0, 2500), accepted=info['accepted'],
                             diagnostic=ev0.built.error)
    if viol:
        cls, detail, argv, ev = viol[0]

        def runner(pp, aa):
            v, i = judge(pp, W)
            return [(c, d) for c, d, _, _ in v]
        mp, ma, tests = common.minimise(p, argv, {cls}, runner, budget_s=15)
        v2, _ = judge(mp, W)
        hit = [x for x in v2 if x[0] == cls]
        if hit:
            cls, detail, argv, ev = hit[0]
        else:
            mp = p
        res['violations'].append({'cls': cls, 'detail': detail, 'fingerprint': None,
                                  'payload': common.payload(mp, argv, ev, {'shrink_tests': tests}),
                                  'sample': common.sample_of(mp, argv, ev)})
    return res


def replay(pl):
    p = lang.from_json(pl['prog'])
    viol, _ = judge(p, pl['cfg']['W'])
    return [{'cls': c, 'detail': d, 'fingerprint': None} for c, d, _, _ in viol]
