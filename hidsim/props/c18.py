"""C18 - builds are reproducible and options do not change meaning."""
import hashlib
import json
import os
import shutil
import subprocess
import sys
import tempfile

from .. import lang, render, refmodel, hidc_api
from ..harness import case_rng, ROOT
from ..runner import digest, hist_text, build, run_svm
from . import common, progs

ID = 'C18'
LEVEL = 'exploration'
TIERS = {
    'quick': {'cases': 200, 'wall': 120, 'chunk': 2},
    'thorough': {'cases': 12000, 'wall': 1500, 'chunk': 6},
}
BATCH = 6
RULE = ('case i draws a batch of 6 seeded programs from the union of all generators. (a) hash-seed seam: the '
        'batch is compiled in 4 fresh interpreters under seeded PYTHONHASHSEED values (0 always included) and '
        'twice in-process; all assembly byte streams must be identical. (b) stack: for the first program the '
        'minimal completing stack N is measured and the histories at N, N+1, N+2, N+9, 4000 and 100000 words '
        'must be identical (time-travel programs included). (c) word size: the program (generated so that all '
        'its constants fit 16 bits; every third case a storage-layout program: dynamic arrays of all element types with '
        'run-time lengths back to back, in a callee and in a loop, filled and only then read back) is run at every word '
        'size in {2,3,4,5,6,7,8}; whenever the reference histories at w < w\' agree the SVM histories must agree. '
        '(d) lint: --lint either raises a compiler diagnostic or yields byte-identical assembly. '
        'The lint clause also covers 10 programs per case from C16\'s exit-shape generator (unreachable statements of every kind). '
        '(e) process environment: one program of the batch with non-ASCII text (a comment is appended when it has none) '
        'is compiled by the command-line tool on the fake file system under the simulated locale encodings utf-8, ascii, '
        'latin-1 and cp1252, and - every fourth case - by the real tool in two fresh interpreters (LC_ALL=C.utf8; LC_ALL=C '
        'with locale coercion and UTF-8 mode off, another hash seed, another working directory); every build must equal '
        'the in-process API build byte for byte. '
        'distinct = hash(batch sources); non-trivial = all four sub-checks executed for the batch.')
ASSUMPTIONS = ['PYTHONHASHSEED and the locale encoding are the per-process inputs hidc could depend on (no clocks, ids or paths in the output)',
               'SVM and reference model as for C01/C02']
CLASSES = ('nondeterministic-build', 'stack-changes-meaning', 'word-size-changes-meaning', 'lint-changes-code',
           'internal-error', 'locale-changes-build', 'file-path-differs', 'environment-changes-build')

REAL_ENVS = (('LC_ALL=C.utf8', {'LC_ALL': 'C.utf8'}),
             ('LC_ALL=C without locale coercion and UTF-8 mode', {'LC_ALL': 'C', 'LANG': 'C', 'PYTHONCOERCECLOCALE': '0', 'PYTHONUTF8': '0'}))


def real_env_builds(src, W, hashseed):
    """The real command-line tool in fresh interpreters under two process environments. -> [(name, status, bytes|None, stderr)]"""
    out = []
    d = tempfile.mkdtemp(prefix='hidc18_')
    try:
        with open(os.path.join(d, 'in.hid'), 'wb') as f:
            f.write(src.encode('utf-8'))
        for k, (name, extra) in enumerate(REAL_ENVS):
            env = {kk: v for kk, v in os.environ.items() if not kk.startswith('LC_') and kk not in ('LANG', 'PYTHONUTF8', 'PYTHONCOERCECLOCALE')}
            env.update(extra, PYTHONPATH=hidc_api.REPO, PYTHONDONTWRITEBYTECODE='1', PYTHONHASHSEED=str(hashseed if k else 0))
            cwd = d if k == 0 else tempfile.gettempdir()
            outp = os.path.join(d, f'out{k}.s')
            r = subprocess.run([sys.executable, '-m', 'hidc', os.path.join(d, 'in.hid'), '-o', outp, f'-m{8 * W}'], cwd=cwd, env=env,
                               stdout=subprocess.PIPE, stderr=subprocess.PIPE, timeout=120)
            out.append((name, r.returncode, open(outp, 'rb').read() if os.path.exists(outp) else None,
                        r.stderr.decode('utf-8', 'replace')[-200:]))
    finally:
        shutil.rmtree(d, ignore_errors=True)
    return out


def check_environment(src, W, hashseed, real):
    """-> violations [(cls, detail)], fired {kind: n}"""
    fired = {}
    if not any(ord(c) >= 0x80 for c in src):
        src = src + '\n// na\u00efve \u2603 \u00fcber\n'
    try:
        lines = hidc_api.compile_source(src, word_size=W, stack_size=500, unchecked=False, lint=False)
    except Exception:   # noqa: BLE001 - rejected or internal: judged by the other clauses
        return [], fired, src
    want = b''.join(l + b'\n' for l in lines)
    fp = common.file_path_problem(src, W, stack=500, stats=fired)
    if fp:
        return [fp], fired, src
    if real:
        for name, status, got, err in real_env_builds(src, W, hashseed):
            fired['real_process_env'] = fired.get('real_process_env', 0) + 1
            if status != 0 or got is None:
                return [('environment-changes-build', f'the API compiles this source but `python -m hidc` under {name} exits {status}: {err!r}')], fired, src
            if got != want:
                return [('environment-changes-build', f'`python -m hidc` under {name} writes {len(got)} bytes that differ from the API build ({len(want)} bytes)')], fired, src
    return [], fired, src


def sub_compile(jobs, hashseed):
    env = dict(os.environ, PYTHONHASHSEED=str(hashseed), PYTHONDONTWRITEBYTECODE='1')
    r = subprocess.run([sys.executable, os.path.join(ROOT, 'hidsim', 'compile_worker.py'), ROOT],
                       input=json.dumps(jobs).encode(), stdout=subprocess.PIPE, stderr=subprocess.PIPE,
                       env=env, timeout=300)
    if r.returncode != 0:
        raise RuntimeError('compile worker failed: ' + r.stderr.decode()[-500:])
    return json.loads(r.stdout)


def local_digest(j):
    try:
        lines = hidc_api.compile_source(j['src'], word_size=j['W'], stack_size=j['stack'],
                                        unchecked=j['unchecked'], lint=j['lint'])
        return hashlib.sha256(b'\n'.join(lines)).hexdigest(), lines
    except hidc_api.CompilerError as e:
        return 'ERR:' + type(e).__name__ + ':' + str(e), None
    except Exception as e:   # noqa: BLE001
        return 'ICE:' + type(e).__name__, None


def check_stack(p, argv, W, src, unchecked):
    out = []
    n = common.min_stack(src, argv, W, unchecked, hi=4000)
    if n is None:
        return out, None, 0
    hist = None
    runs = 0
    for s in (n, n + 1, n + 2, n + 9, 4000, 100000):
        b = build(src, W=W, stack=s, unchecked=unchecked, argv=argv)
        if b.prog is None:
            if b.error_kind == 'rejected' and s == 100000:
                continue       # "Stack size too large" is a legitimate diagnostic for narrow words
            out.append(('stack-changes-meaning', f'stack {s}: build failed: {b.error}'))
            break
        r = run_svm(b.prog, max_steps=2_000_000)
        runs += 1
        if r.outcome == 'BUDGET':
            break
        h = (r.outcome, r.error_kind, [tuple(e) for e in r.history])
        if hist is None:
            hist = h
        elif h != hist:
            out.append(('stack-changes-meaning', f'stack {n} gives {hist[0]}/{hist[1]} [{hist_text(hist[2])}] but '
                                                 f'stack {s} gives {h[0]}/{h[1]} [{hist_text(h[2])}]'))
            break
    return out, n, runs


def check_words(p, argv, src):
    out = []
    seen = []
    runs = 0
    for W in (2, 3, 4, 5, 6, 7, 8):
        ref = refmodel.run(p, argv, W, stack_bytes=4000 * W)
        if ref.outcome not in ('WIN', 'ERROR', 'DIVERGE'):
            continue
        b = build(src, W=W, stack=4000, argv=argv)
        if b.prog is None:
            if b.error_kind != 'arg':
                out.append(('word-size-changes-meaning', f'word size {W}: build failed: {b.error}'))
            continue
        r = run_svm(b.prog, max_steps=2_000_000)
        runs += 1
        if r.outcome == 'BUDGET':
            continue
        seen.append((W, [tuple(e) for e in ref.history], (r.outcome, [tuple(e) for e in r.history])))
    for i in range(len(seen)):
        for j in range(i + 1, len(seen)):
            (w1, ref1, svm1), (w2, ref2, svm2) = seen[i], seen[j]
            if ref1 == ref2 and svm1 != svm2:
                out.append(('word-size-changes-meaning',
                            f'reference histories agree at {w1} and {w2} bytes but the compiled programs print '
                            f'[{hist_text(svm1[1])}] vs [{hist_text(svm2[1])}]'))
    return out, runs, len(seen)


def layout_prog(rnd):
    """Storage layout under every word size: several dynamic arrays of all element types with run-time
    lengths allocated back to back (also inside a callee and a loop), filled with distinct values and
    only then read back - any size/offset computed for one particular word size makes neighbours overlap."""
    from ..build import (I, C, S, V, call, ex, write, dyn, setv, aug, block, if_, for_up, bin_, idx, ln, is_, func, prog,
                         dump_func, decl)
    els = []
    body, dumps = [], []

    def alloc(k, lenexpr, prefix):
        el = rnd.choice(('int', 'int', 'byte', 'bool', 'string'))
        name = f'{prefix}{k}'
        if el not in els:
            els.append(el)
        val = {'int': bin_('+', bin_('*', V('i'), I(k + 2)), I(100 * k + 7)),
               'byte': is_(bin_('+', V('i'), I(65 + k)), 'byte'),
               'bool': bin_('==', bin_('%', V('i'), I(2)), I(k % 2)),
               'string': S(f's{k}')}[el]
        return [dyn(el, name, lenexpr), for_up('i', I(0), ln(name), setv(idx(name, V('i')), val))], ex(call('dump', V(name)))
    for k in range(rnd.randrange(2, 5)):
        le = bin_('+', V('q'), I(rnd.randrange(0, 3))) if rnd.random() < 0.75 else I(rnd.randrange(1, 5))
        a, d = alloc(k, le, 'a')
        body += a
        dumps.append(d)
    inner_a, inner_d = [], []
    for k in range(rnd.randrange(1, 3)):
        a, d = alloc(k + 5, bin_('+', V('n'), I(k)), 'b')
        inner_a += a
        inner_d.append(d)
    callee = func('int', 'deep', [('int', 'n')], *inner_a, *inner_d, ('ret', bin_('+', V('n'), I(1))))
    body += [write(call('deep', V('q'))), write(C('|'))]
    if rnd.random() < 0.5:
        a, d = alloc(9, V('j'), 'c')
        body.append(for_up('j', I(1), I(3), *a, d))
    body += dumps
    fs = [('func', 'empty', 'dump', ((('arrt', el, True), 'a'),), dump_func(el)[4]) for el in els]
    return prog([], fs + [callee, func('empty', '@is_you', [('int', 'q')], *body)]), [str(rnd.randrange(1, 5))]


def judge_batch(batch, hashseeds, real_env=False, lint_extra=()):
    """batch: list of (prog, argv, W, kind, src).  -> violations, stats"""
    viol = []
    stats = {'subprocess_compiles': 0, 'stack_runs': 0, 'word_runs': 0, 'lint_pairs': 0, 'lint_rejected': 0, 'env_fired': {}}
    # process environment (locale encoding, working directory) on one program of the batch
    n_env = next((n for n, b in enumerate(batch) if any(ord(c) >= 0x80 for c in b[4])), len(batch) - 1)
    v, fired, _ = check_environment(batch[n_env][4], batch[n_env][2], hashseeds[-1], real_env)
    stats['env_fired'] = fired
    viol += [(c, d, n_env) for c, d in v]
    jobs = []
    for p, argv, W, kind, src in batch:
        jobs.append({'src': src, 'W': W, 'stack': 500, 'unchecked': False, 'lint': False})
        jobs.append({'src': src, 'W': W, 'stack': 37, 'unchecked': True, 'lint': False})
    local1 = [local_digest(j)[0] for j in jobs]
    local2 = [local_digest(j)[0] for j in jobs]
    results = {'in-process#1': local1, 'in-process#2': local2}
    for hs in hashseeds:
        results[f'PYTHONHASHSEED={hs}'] = sub_compile(jobs, hs)
        stats['subprocess_compiles'] += len(jobs)
    for k, v in results.items():
        for n, (a, b) in enumerate(zip(local1, v)):
            if a != b:
                viol.append(('nondeterministic-build', f'job {n} ({jobs[n]["W"]} bytes, unchecked={jobs[n]["unchecked"]}): '
                                                       f'in-process digest {a[:16]} but {k} gives {b[:16]}', n // 2))
                break
    for n, d in enumerate(local1):
        if d.startswith('ICE'):
            viol.append(('internal-error', d, n // 2))
    # lint
    for n, (p, argv, W, kind, src) in enumerate(batch):
        plain, _ = local_digest({'src': src, 'W': W, 'stack': 500, 'unchecked': False, 'lint': False})
        lint, _ = local_digest({'src': src, 'W': W, 'stack': 500, 'unchecked': False, 'lint': True})
        stats['lint_pairs'] += 1
        if lint.startswith('ERR:'):
            stats['lint_rejected'] += 1
        elif lint != plain:
            viol.append(('lint-changes-code', f'--lint accepted the program but the assembly differs ({plain[:16]} vs {lint[:16]})', n))
    # lint on exit-analysis shapes (C16's generator: unreachable statements of every kind, closing returns behind
    # endless loops and terminal calls) - where --lint has something to object to, at any word size
    for k, src in enumerate(lint_extra):
        W = (2, 3, 4)[k % 3]
        plain, _ = local_digest({'src': src, 'W': W, 'stack': 500, 'unchecked': False, 'lint': False})
        lint, _ = local_digest({'src': src, 'W': W, 'stack': 500, 'unchecked': False, 'lint': True})
        stats['lint_pairs'] += 1
        if lint.startswith('ERR:'):
            stats['lint_rejected'] += 1
        elif plain.startswith('ERR:'):
            viol.append(('lint-changes-code', f'--lint accepts a program that is rejected without it ({plain[:120]}); exit-shape program {k}', 0))
        elif lint != plain:
            viol.append(('lint-changes-code', f'--lint accepted the program but the assembly differs ({plain[:16]} vs {lint[:16]}); '
                                              f'exit-shape program {k}:\n{src[:1200]}', 0))
    # stack and word size on the first program of the batch
    p, argv, W, kind, src = batch[0]
    v, n_need, runs = check_stack(p, argv, W, src, False)
    stats['stack_runs'] += runs
    viol += [(c, d, 0) for c, d in v]
    v, runs, nw = check_words(p, argv, src)
    stats['word_runs'] += runs
    stats['word_sizes_compared'] = nw
    viol += [(c, d, 0) for c, d in v]
    stats['need_words'] = n_need
    return viol, stats


def case(seed, idx, tier):
    rnd = case_rng(seed, ID, idx)
    batch = []
    for k in range(BATCH):
        # the first program is generated for the narrowest word: all its literals and
        # constant sub-expressions fit 16 bits, so "values fit the narrower word" is
        # decided by the run alone (reference histories equal)
        if k == 0 and idx % 3 == 1:
            p, argv = layout_prog(rnd)
            W, kind = 2, 'layout'
        else:
            p, argv, W, kind = progs.draw(rnd, W=2 if k == 0 else None)
        src = render.program(p, render.Style(rnd.randrange(1 << 30)))
        batch.append((p, argv, W, kind, src))
    hashseeds = [0, rnd.randrange(1, 1 << 31), rnd.randrange(1, 1 << 31), rnd.randrange(1, 1 << 31)]
    from .c16 import G16
    lint_extra = [render.program(G16(rnd).build(), render.Style(rnd.randrange(1 << 30))) for _ in range(10)]
    res = common.new_result()
    viol, stats = judge_batch(batch, hashseeds, real_env=(idx % 4 == 0), lint_extra=lint_extra)
    res['key'] = digest(*[b[4] for b in batch])
    res['nontrivial'] = bool(stats['subprocess_compiles'] and stats['stack_runs'] and stats['word_runs'] and stats['lint_pairs'])
    res['counters'].update({k: v for k, v in stats.items() if isinstance(v, int)})
    res['counters']['svm_runs'] = stats['stack_runs'] + stats['word_runs']
    res['counters']['programs'] = len(batch)
    res['faults_fired'] = dict({'hash_seed': len(hashseeds), 'fresh_process': len(hashseeds)}, **stats['env_fired'])
    res['digest'] = digest(res['key'], [(v[0], v[1]) for v in viol])
    if idx < 2:
        res['sample'] = {'first_program': batch[0][4][:1200], 'argv': batch[0][1], 'hashseeds': hashseeds, 'stats': stats}
    for cls, detail, n in viol[:1]:
        p, argv, W, kind, src = batch[n]
        res['violations'].append({'cls': cls, 'detail': detail, 'fingerprint': None,
                                  'payload': {'batch': [[lang.to_json(b[0]), b[1], b[2], b[3], b[4]] for b in batch],
                                              'hashseeds': hashseeds, 'culprit': n, 'real_env': idx % 4 == 0, 'lint_extra': lint_extra},
                                  'sample': {'source': src[:1500], 'argv': argv, 'W': W}})
    return res


def replay(pl):
    batch = [(lang.from_json(b[0]), b[1], b[2], b[3], b[4]) for b in pl['batch']]
    viol, _ = judge_batch(batch, pl['hashseeds'], real_env=pl.get('real_env', False), lint_extra=pl.get('lint_extra', ()))
    return [{'cls': c, 'detail': d, 'fingerprint': None} for c, d, _ in viol]
