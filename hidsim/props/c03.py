"""C03 - halt is defeat: a compiled program never halts."""
from .. import lang
from ..harness import case_rng
from ..runner import digest
from . import common, progs, c16, c08

ID = 'C03'
LEVEL = 'exploration'
TIERS = {
    'quick': {'cases': 132 + 2400, 'wall': 100, 'chunk': 12},
    'thorough': {'cases': 132 + 100000, 'wall': 1500, 'chunk': 24},
}
RULE = ('cases 0..131: 66 fixed rare-shape programs (defeat used in exactly one unusual place: loop clause, preempt, else '
        'branch, nested call, while condition, behind a return, code-generation order, value of a defeat call leaving a try) on '
        'two inputs each (seed independent). Further cases: one seeded program from the broadest mix - time-travel programs (45%), sequential programs '
        '(15%), programs with a planted runtime fault or its harmless twin (20%), exit-analysis shapes of C16 '
        'that hidc accepts (10%), scope/array programs of C08 (10%) - in a checked build (any outcome: a '
        'runtime fault must end in its error loop, a stack exhaustion in stack_overflow) and, when the checked '
        'run is fault-free, also in an --unchecked build; every fourth case at a seeded small stack. '
        'invariant on every run: the machine never executes a halt with an empty choice stack, never leaves '
        'the code, never faults; only WIN, ERROR and DIVERGE are accepted (BUDGET is counted, not judged). '
        'Programs whose reference run uses an uninitialised element are discarded. distinct = hash(source, '
        'argv, W, build); non-trivial = the run reached at least one halt speculatively and averted it.')
ASSUMPTIONS = ['a committed halt = a halt reached with no open choice point in the SVM (newest-first rollback)',
               'cycle detection decides "runs forever"; BUDGET runs are inconclusive']
CLASSES = ('halt', 'machine-fault', 'internal-error', 'asm-error', 'ctrl')


def draw(rnd):
    c = rnd.random()
    if c < 0.10:
        p = c16.G16(rnd).build()
        return p, [str(rnd.randrange(4))], rnd.choice((2, 3, 4)), 'c16'
    if c < 0.20:
        W = rnd.choice((2, 3, 4, 8))
        g = c08.G8(rnd, W)
        p = g.build()
        return p, [str(rnd.randrange(0, 7)), str(rnd.randrange(6))], W, 'c08'
    return progs.draw(rnd, mix=(0.56, 0.19, 0.25))


def judge(p, argv, W, stack, unchecked):
    ev = common.evaluate(p, argv, W=W, stack=stack, unchecked=unchecked, max_steps=2_000_000)
    probs = [(c, d) for c, d in ev.problems if c in CLASSES]
    return probs, ev


N_RARE = 132


def case(seed, idx, tier):
    rnd = case_rng(seed, ID, idx)
    if idx < N_RARE:
        # seed-independent: the rare shapes (defeat used in exactly one unusual place) with fixed random
        # choices, each on two inputs - whole-program conditions of the code generator do not depend on luck
        import random
        from ..gen_tt import rare_shape_program
        p, argv = rare_shape_program(random.Random(7000 + idx // 2))
        if idx % 2:
            argv = [str(int(argv[0]) + 3)]
        W, kind = (2, 3, 4, 8)[idx % 4], 'rare'
    else:
        p, argv, W, kind = draw(rnd)
    stack = rnd.choice((20, 40, 70, 120)) if (idx % 4 == 3 and idx >= N_RARE) else 2500
    res = common.new_result()
    probs, ev = judge(p, argv, W, stack, False)
    if ev.built.error_kind == 'rejected' or ev.ref.outcome in ('UNSPECIFIED', 'UNDEFINED'):
        res['key'] = digest(ev.src, argv, W)
        res['outcomes']['discarded:' + (ev.built.error_kind or ev.ref.outcome)] = 1
        return res
    common.add_counters(res, ev)
    res['key'] = digest(ev.src, argv, W, stack)
    res['counters']['kind_' + kind.split(':')[0]] = 1
    bad = (probs, ev, False) if probs else None
    halts = 0
    if ev.res is not None:
        halts = ev.res.rollbacks + ev.res.peephole_averted
        res['counters']['halts_averted'] = halts
        res['counters']['halt_sites'] = [f'{kind[:2]}{pc}' for pc in list(ev.res.halt_sites)[:0]]
        res['max']['choice_depth'] = ev.res.max_depth
        res['max']['distinct_halt_sites_in_one_run'] = len(ev.res.halt_sites)
        if ev.res.error_kind:
            res['faults_fired'][ev.res.error_kind] = 1
    if bad is None and ev.res is not None and ev.res.outcome in ('WIN', 'DIVERGE') and stack == 2500:
        probs2, ev2 = judge(p, argv, W, stack, True)
        common.add_counters(res, ev2)
        res['faults_fired']['unchecked'] = 1
        if ev2.res is not None:
            halts += ev2.res.rollbacks + ev2.res.peephole_averted
        if probs2:
            bad = (probs2, ev2, True)
    res['nontrivial'] = halts > 0
    res['digest'] = digest(res['key'], ev.res.outcome if ev.res is not None else None, bad[0] if bad else None)
    if idx < 2:
        res['sample'] = dict(common.sample_of(p, argv, ev, 1500), kind=kind)
    if bad is not None:
        probs, evb, unchecked = bad
        cls = probs[0][0]

        def runner(pp, aa):
            return judge(pp, aa, W, stack, unchecked)[0]
        mp, ma, tests = common.minimise(p, argv, {cls}, runner, budget_s=15)
        pr2, ev3 = judge(mp, ma, W, stack, unchecked)
        if not any(c == cls for c, _ in pr2):
            mp, ma, pr2, ev3 = p, argv, probs, evb
        d = next(d for c, d in pr2 if c == cls)
        res['violations'].append({'cls': cls, 'detail': d, 'fingerprint': None,
                                  'payload': common.payload(mp, ma, ev3, {'kind': kind, 'shrink_tests': tests}),
                                  'sample': common.sample_of(mp, ma, ev3)})
    return res


def replay(pl):
    p = lang.from_json(pl['prog'])
    c = pl['cfg']
    probs, _ = judge(p, pl['argv'], c['W'], c['stack'], c['unchecked'])
    return [{'cls': cl, 'detail': d, 'fingerprint': None} for cl, d in probs]
