"""C09 - operators and casts give the specified result at every boundary value."""
from ..build import *   # noqa: F401,F403
from ..harness import case_rng
from ..runner import digest
from . import common

ID = 'C09'
LEVEL = 'exploration'
WORDS = (2, 3, 4)


def grid(W):
    maxs = (1 << (8 * W - 1)) - 1
    vals = [0, 1, -1, 2, -2, 127, 128, 255, 256, -128, -255, -256, maxs, maxs - 1, -maxs - 1, -maxs]
    out = []
    for v in vals:
        if v not in out:
            out.append(v)
    return out


A, Bv, AB, BB = V('a'), V('b'), V('ab'), V('bb')
# (name, result type, expression, needs b != 0)
OPS = [
    ('add', 'int', bin_('+', A, Bv), False), ('sub', 'int', bin_('-', A, Bv), False),
    ('mul', 'int', bin_('*', A, Bv), False), ('div', 'int', bin_('/', A, Bv), True),
    ('mod', 'int', bin_('%', A, Bv), True),
    ('lt', 'bool', bin_('<', A, Bv), False), ('le', 'bool', bin_('<=', A, Bv), False),
    ('gt', 'bool', bin_('>', A, Bv), False), ('ge', 'bool', bin_('>=', A, Bv), False),
    ('eq', 'bool', bin_('==', A, Bv), False), ('ne', 'bool', bin_('!=', A, Bv), False),
    ('and', 'bool', bin_('and', A, Bv), False), ('or', 'bool', bin_('or', A, Bv), False),
    ('not', 'bool', ('un', 'not', A), False), ('neg', 'int', ('un', '-', A), False),
    ('pos', 'int', ('un', '+', A), False),
    ('beq', 'bool', bin_('==', bin_('>', A, I(0)), bin_('>', Bv, I(0))), False),
    ('bne', 'bool', bin_('!=', is_(A, 'bool'), is_(Bv, 'bool')), False),
    ('is_byte', 'byte', is_(A, 'byte'), False), ('is_bool', 'bool', is_(A, 'bool'), False),
    ('byte_is_int', 'int', is_(AB, 'int'), False), ('bool_is_int', 'int', is_(is_(A, 'bool'), 'int'), False),
    ('bool_is_byte', 'byte', is_(is_(A, 'bool'), 'byte'), False),
    ('byte_is_bool', 'bool', is_(AB, 'bool'), False),
    ('byte_add', 'int', bin_('+', AB, BB), False), ('byte_sub', 'int', bin_('-', AB, BB), False),
    ('byte_mul', 'int', bin_('*', AB, Bv), False), ('byte_lt', 'bool', bin_('<', AB, Bv), False),
    ('byte_ge', 'bool', bin_('>=', A, BB), False), ('byte_eq', 'bool', bin_('==', AB, BB), False),
    ('byte_div', 'int', bin_('/', AB, Bv), True), ('byte_mod', 'int', bin_('%', A, BB), 'bb'),
    ('narrow_sum', 'byte', is_(bin_('+', A, Bv), 'byte'), False),
    ('cmp_chain', 'bool', bin_('and', bin_('<=', A, Bv), ('un', 'not', bin_('==', A, Bv))), False),
    ('or_mixed', 'bool', bin_('or', bin_('<', A, Bv), BB), False),
    ('nand', 'bool', ('un', 'not', bin_('and', A, Bv)), False),
    ('nor', 'bool', ('un', 'not', bin_('or', A, Bv)), False),
    ('or_nand', 'bool', bin_('or', bin_('>', A, I(5)), ('un', 'not', bin_('and', A, Bv))), False),
    ('and_nor', 'bool', bin_('and', bin_('<', A, I(300)), ('un', 'not', bin_('or', BB, bin_('==', A, Bv)))), False),
    ('demorgan', 'bool', bin_('and', ('un', 'not', A), ('un', 'not', Bv)), False),
    ('and_or', 'bool', bin_('or', bin_('and', A, Bv), bin_('and', BB, AB)), False),
    ('or_and', 'bool', bin_('and', bin_('or', A, Bv), bin_('or', ('un', 'not', A), BB)), False),
    ('not_not', 'bool', ('un', 'not', ('un', 'not', bin_('<', A, Bv))), False),
    ('cast_byte_truth', 'bool', is_(is_(bin_('*', A, Bv), 'byte'), 'bool'), False),
    ('byte_cond', 'byte', is_(bin_('-', A, Bv), 'byte'), False),
    # an arithmetic result compared with a constant: where a compare/arithmetic fusion (x - y < 0 as x < y, x + 1 > x
    # as true, -x < 0 as x > 0) is only right while nothing wraps around (after seeded change C09-14)
    ('sub_lt0', 'bool', bin_('<', bin_('-', A, Bv), I(0)), False), ('sub_le0', 'bool', bin_('<=', bin_('-', A, Bv), I(0)), False),
    ('sub_gt0', 'bool', bin_('>', bin_('-', A, Bv), I(0)), False), ('sub_ge0', 'bool', bin_('>=', bin_('-', A, Bv), I(0)), False),
    ('sub_eq0', 'bool', bin_('==', bin_('-', A, Bv), I(0)), False), ('zero_lt_sub', 'bool', bin_('<', I(0), bin_('-', A, Bv)), False),
    ('add_lt0', 'bool', bin_('<', bin_('+', A, Bv), I(0)), False), ('add_ge_b', 'bool', bin_('>=', bin_('+', A, Bv), Bv), False),
    ('inc_gt', 'bool', bin_('>', bin_('+', A, I(1)), A), False), ('neg_lt0', 'bool', bin_('<', ('un', '-', A), I(0)), False),
    ('mul_gt0', 'bool', bin_('>', bin_('*', A, Bv), I(0)), False), ('sub_lt1', 'bool', bin_('<', bin_('-', A, Bv), I(1)), False),
    ('byte_sub_lt0', 'bool', bin_('<', bin_('-', AB, BB), I(0)), False),
]

N_FIXED = len(OPS) * len(WORDS) * 16
TIERS = {
    'quick': {'cases': N_FIXED + 300, 'wall': 100, 'chunk': 24},
    'thorough': {'cases': N_FIXED + 20000, 'wall': 900, 'chunk': 48},
}
RULE = ('fixed jobs: every operator/cast in OPS x every row of the boundary grid {0,+-1,+-2,127,128,255,256,'
        '-128,-255,-256,max,max-1,min,min+1} as left operand x the whole grid as right operands x word '
        'sizes {2,3,4}; operands travel through argv so nothing is folded. Each application is observed '
        'in several lowering positions: as a printed value, as an if / while / negated-if condition, as !truth_is_defeat inside '
        'try/undo and inside try/stop (and negated). seeded jobs: random operand rows. oracle: reference '
        'interpreter (wrap-around, signed compare, zero-extension, truncation, strict 0/1). '
        'distinct = hash(source, argv, W); non-trivial = at least one operator application executed and won.')
ASSUMPTIONS = ['SVM as calibrated; floor division/modulo (README silent, implementation folder and SVM agree)',
               'division by zero pairs are skipped here (C05 owns them)']
EXHAUSTIVE = {'quick': False, 'thorough': False}


def op_prog(op):
    name, rt, e, nz = op
    if rt == 'byte':
        shown = write(is_(e, 'int'))
        cond = is_(e, 'bool')
    elif rt == 'int':
        shown = write(e)
        cond = is_(e, 'bool')
    else:
        shown = write(e)
        cond = e
    branch_cond = e           # raw truthiness for the if
    per_pair = [
        shown, write(C(' ')),
        if_(branch_cond, block(write(C('T'))), block(write(C('F')))),
        while_(branch_cond, write(C('W')), ('break',)),
        if_(('un', 'not', branch_cond), block(write(C('t')))),
        try_(block(ex(call('!truth_is_defeat', cond)), write(C('n'))), 'undo', block(write(C('d')))),
        try_(block(ex(call('!truth_is_defeat', cond)), write(C('n'))), 'stop', block(write(C('s')))),
        try_(block(ex(call('!truth_is_defeat', ('un', 'not', cond))), write(C('N'))), 'undo', block(write(C('D')))),
        decl('bool', 'keep', cond), write(V('keep')),
        write(C('\n')),
    ]
    guard = None
    if nz is True:
        guard = bin_('!=', Bv, I(0))
    elif nz == 'bb':
        guard = bin_('!=', BB, I(0))
    inner = [decl('int', 'b', idx('bs', V('j'))),
             decl('byte', 'bb', is_(Bv, 'byte'))]
    if guard is not None:
        inner.append(if_(guard, block(*per_pair), block(write(C('z')), write(C('\n')))))
    else:
        inner.extend(per_pair)
    body = [decl('byte', 'ab', is_(A, 'byte')), for_up('j', I(0), ln('bs'), *inner)]
    return prog([], [func('empty', '@is_you', [('int', 'a'), (arr('int', True), 'bs')], *body)])


def job(seed, idx):
    if idx < N_FIXED:
        o, rest = divmod(idx, len(WORDS) * 16)
        w, row = divmod(rest, 16)
        W = WORDS[w]
        g = grid(W)
        return OPS[o], W, g[row % len(g)], g
    rnd = case_rng(seed, ID, idx)
    W = rnd.choice(WORDS)
    maxs = (1 << (8 * W - 1)) - 1
    g = grid(W)

    def rv():
        c = rnd.random()
        if c < 0.3:
            return rnd.choice(g) + rnd.choice((-1, 0, 1))
        if c < 0.6:
            return rnd.randrange(-70000, 70000)
        return rnd.randrange(-maxs - 1, maxs + 1)
    fix = lambda v: max(-maxs - 1, min(maxs, v))   # noqa: E731
    return rnd.choice(OPS), W, fix(rv()), [fix(rv()) for _ in range(12)]


def case(seed, idx, tier):
    op, W, a, bs = job(seed, idx)
    p = op_prog(op)
    argv = [str(a)] + [str(b) for b in bs]
    res = common.new_result()
    cfg = dict(W=W, stack=300)
    found, ev = common.problems_of(p, argv, cfg)
    common.add_counters(res, ev)
    res['key'] = digest(ev.src, argv, W)
    res['nontrivial'] = bool(ev.res is not None and ev.res.outcome == 'WIN' and ev.ref.output())
    res['counters']['applications'] = len(bs)
    res['counters']['op_' + op[0]] = 1
    res['counters']['fixed_jobs' if idx < N_FIXED else 'seeded_jobs'] = 1
    res['digest'] = digest(res['key'], ev.res.history if ev.res is not None else None, found)
    if idx in (0, 500, N_FIXED):
        res['sample'] = dict(common.sample_of(p, argv, ev, 900), op=op[0])
    if found:
        common.report(res, p, argv, cfg, found, ev, extra={'op': op[0]}, budget_s=8)
    return res


def finalize(cov, agg):
    cov['grid_complete'] = agg['counters'].get('fixed_jobs', 0) == N_FIXED
    cov['exhaustive_part'] = ('boundary grid x all operators x 4 positions x word sizes {2,3,4}'
                              if cov['grid_complete'] else 'incomplete (wall budget)')


def replay(pl):
    return common.generic_replay(pl)
