"""C08 - every scope exit releases exactly what the scope allocated."""
from .. import lang
from ..build import *   # noqa: F401,F403
from ..harness import case_rng
from ..runner import digest, hist_text
from . import common

ID = 'C08'
LEVEL = 'exploration'
TIERS = {
    'quick': {'cases': 420, 'wall': 100, 'chunk': 4},
    'thorough': {'cases': 15000, 'wall': 1500, 'chunk': 8},
}
RULE = ('case i: a seeded program whose loops (iteration count k from argv) contain arrays - literal, dynamic, '
        'aliased, passed to callees - declared at every nesting level of blocks, inner loops, calls and '
        'try/undo / try/stop bodies and handlers, and left by every route (fall through, break, continue, '
        'return from nested blocks, defeat caught by stop from inside a defeat function that allocated '
        'arrays); the route taken in iteration i is selected by (i + sel) % M, so the iterations repeat with '
        'period M. Runs: k = M and k = 3M on a generous stack with M-scope (fp/ap equal at every loop-head '
        'arrival within an activation, restored at call return and at handler entry) and M-mem (extent list: '
        'no ap restored into a live array, no access through a released origin); the minimal stack N(k) is '
        'measured for k = M and k = 3M and must be equal; the k = 3M run at stack N(M) must reproduce the '
        'reference history. distinct = hash(source, argv, W); non-trivial = at least one array was allocated '
        'inside a loop and at least one non-fall-through exit was taken (reference statistics).')
ASSUMPTIONS = ['allocation sizes are iteration-independent by construction, so a footprint that grows with k is a leak',
               'SVM, monitors and reference model as for C01/C02/C04']
CLASSES = common.ALL_CLASSES + ('footprint-grows', 'tight-history')


class G8:
    def __init__(self, rnd, W):
        self.rnd = rnd
        self.W = W
        self.n = 0
        self.M = rnd.choice((2, 3))
        self.int_arrays = []      # (name, length) in scope
        self.in_you = True
        self.loop_var = 'i'
        self.exits_used = set()

    def nm(self, p):
        self.n += 1
        return f'{p}{self.n}'

    def alloc(self):
        r = self.rnd
        c = r.randrange(6)
        name = self.nm('a')
        if c < 2:
            ln_ = r.choice((1, 2, 3, 5))
            st = [decl(arr('int'), name, ('arr', tuple([V(self.loop_var)] + [I(r.randrange(9)) for _ in range(ln_ - 1)])), True)]
            self.int_arrays.append((name, ln_))
        elif c == 2:
            ln_ = r.choice((0, 1, 4, 7))
            st = [dyn('int', name, I(ln_)),
                  for_up(self.nm('f'), I(0), ln(name), setv(idx(name, V(f'f{self.n}')), bin_('+', V(self.loop_var), V(f'f{self.n}'))))]
            if ln_:
                self.int_arrays.append((name, ln_))
        elif c == 3:
            ln_ = r.choice((1, 8, 9, 17))
            st = [dyn('bool', name, I(ln_)),
                  for_up(self.nm('f'), I(0), ln(name), setv(idx(name, V(f'f{self.n}')), bin_('==', bin_('%', V(f'f{self.n}'), I(2)), I(0)))),
                  write(idx(name, I(ln_ - 1)))]
        elif c == 4 and self.int_arrays:
            src, ln_ = r.choice(self.int_arrays)
            st = [decl(arr('int'), name, V(src), True)]
            self.int_arrays.append((name, ln_))
        elif c == 5 and r.random() < 0.5:
            # stack-allocated bool literal (a non-constant element keeps it on the stack)
            ln_ = r.choice((2, 3, 5, 9))
            elems = tuple([bin_('>=', V(self.loop_var), I(0))] + [B(k % 2 == 0) for k in range(ln_ - 1)])
            st = [decl(arr('bool'), name, ('arr', elems), True), write(idx(name, I(ln_ - 1)))]
        else:
            ln_ = r.choice((1, 3, 6))
            st = [decl(arr('byte'), name, ('arr', tuple(I((k * 37 + 1) & 0xFF) for k in range(ln_))), True),
                  write(is_(idx(name, I(ln_ - 1)), 'int'))]
        return st

    def use(self):
        r = self.rnd
        if self.int_arrays and r.random() < 0.8:
            a, ln_ = r.choice(self.int_arrays)
            i = I(r.randrange(ln_))
            c = r.randrange(4)
            if c == 0:
                return [aug('+', 'acc', idx(a, i))]
            if c == 1:
                return [setv(idx(a, i), bin_('+', V('acc'), I(1))), write(idx(a, i)), write(C(' '))]
            if c == 2:
                return [aug('+', idx(a, i), I(2))]
            return [ex(call('dump', V(a)))]
        return [write(V('acc')), write(C(' '))]

    def exit_stmt(self, allowed):
        e = self.rnd.choice(allowed)
        self.exits_used.add(e)
        if e == 'break':
            return ('break',)
        if e == 'cont':
            return ('cont',)
        return ret(V('acc')) if not self.in_you else ret()

    def scope(self, depth, allowed_exits, in_try=False):
        r = self.rnd
        saved = list(self.int_arrays)
        out = []
        for _ in range(r.randrange(2, 5)):
            c = r.randrange(12)
            if c < 4:
                out += self.alloc()
            elif c < 6:
                out += self.use()
            elif c == 6 and depth > 0:
                out.append(block(*self.scope(depth - 1, allowed_exits, in_try)))
            elif c == 7 and depth > 0:
                j = self.nm('j')
                inner_allowed = ['break', 'cont'] + [e for e in allowed_exits if e == 'ret']
                out.append(for_up(j, I(0), I(2), *self.scope(depth - 1, inner_allowed, in_try)))
            elif c == 8 and allowed_exits:
                pre = self.alloc() if r.random() < 0.5 else []
                residue = r.randrange(self.M)
                out.append(if_(bin_('==', bin_('%', bin_('+', V(self.loop_var), V('sel')), I(self.M)), I(residue)),
                               block(*pre, self.exit_stmt(allowed_exits))))
                self.int_arrays = [x for x in self.int_arrays if not any(x[0] == s[2] for s in pre if s[0] in ('decl', 'dyn'))]
            elif c == 9 and self.int_arrays and not in_try and self.helper_ready:
                a, _ = r.choice(self.int_arrays)
                out += [aug('+', 'acc', call('helper', V(self.loop_var), V('sel'), V(a)))]
            elif c == 10 and depth > 0 and self.in_you and not in_try:
                out += self.try_block(depth - 1, allowed_exits)
            else:
                out += self.use()
        self.int_arrays = saved
        return out

    def try_block(self, depth, allowed_exits):
        r = self.rnd
        kind = r.choice(('stop', 'stop', 'undo'))
        saved = list(self.int_arrays)
        body = [write(C('t'))] + self.alloc()
        if self.int_arrays:
            a, _ = self.int_arrays[-1]
            bc = call('!boom', bin_('%', bin_('+', V(self.loop_var), V('sel')), I(self.M)), V(a))
            k = r.randrange(4)
            if k == 0:
                body += [ex(bc)]
            elif k == 1:
                body += [aug('+', 'acc', bc)]             # defeat function called in expression position
            elif k == 2:
                body += [decl('int', self.nm('v'), bc)]
            else:
                body += [if_(bin_('>', bc, I(0)), block(write(C('p'))))]
        body += self.scope(depth, allowed_exits, in_try=True)
        if r.random() < 0.4:
            body += [ex(call('!truth_is_defeat', bin_('==', bin_('%', bin_('+', V(self.loop_var), V('sel')), I(self.M)), I(0))))]
        self.int_arrays = list(saved)
        handler = [write(C('h'))] + self.alloc() + self.use()
        if allowed_exits and r.random() < 0.3:
            handler.append(self.exit_stmt(allowed_exits))
        self.int_arrays = saved
        return [try_(block(*body), kind, block(*handler))]

    def build(self):
        r = self.rnd
        self.helper_ready = False
        # defeat function that allocates before (maybe) reaching defeat, also from depth 2
        boom = func('int', '!boom', [('int', 'n'), (arr('int'), 'pa')],
                    decl(arr('int'), 'tb', ('arr', (V('n'), I(1), I(2))), True),
                    dyn('byte', 'db', I(r.choice((1, 3, 5)))),
                    write(C('b')),
                    if_(bin_('>', V('n'), I(r.choice((0, 1)))), block(setv(idx('tb', I(1)), call('!boom', bin_('-', V('n'), I(2)), V('tb'))))),
                    write(idx('pa', I(0))),
                    ex(call('!truth_is_defeat', bin_('==', bin_('%', V('n'), I(self.M)), I(r.randrange(self.M))))),
                    write(C('B')), ret(bin_('+', V('n'), idx('tb', I(1)))))
        # helper with early returns from nested blocks
        self.in_you = False
        self.loop_var = 'n'
        self.int_arrays = [('pa', 1)]
        hbody = [decl('int', 'acc', V('n'))] + self.scope(2, ['ret'])
        helper = func('int', 'helper', [('int', 'n'), ('int', 'sel'), (arr('int'), 'pa')], *hbody, ret(V('acc')))
        self.helper_ready = True
        self.in_you = True
        self.loop_var = 'i'
        self.int_arrays = [('base', 3)]
        loop1 = for_up('i', I(0), V('k'), *self.scope(2, ['break', 'cont'] + (['ret'] if r.random() < 0.15 else [])))
        self.int_arrays = [('base', 3)]
        wl = self.nm('w')
        self.loop_var = wl
        loop2_body = self.scope(1, ['break', 'cont'])
        self.int_arrays = [('base', 3)]
        loop2 = [decl('int', wl, I(0)),
                 while_(bin_('<', V(wl), V('k')), aug('+', wl, I(1)), *self.try_block(1, ['break', 'cont']), *loop2_body)]
        main = func('empty', '@is_you', [('int', 'k'), ('int', 'sel')],
                    decl(arr('int'), 'base', ('arr', (I(7), I(8), I(9))), True),
                    decl('int', 'acc', I(0)),
                    loop1, ex(call('dump', V('base'))), write(V('acc')), write(C('|')),
                    *loop2, ex(call('dump', V('base'))), write(V('acc')))
        return prog([], [dump_func('int'), boom, helper, main])


def judge(p, sel, W, M, want_need=True):
    """-> (violations, info)"""
    out = []
    info = {'evs': []}
    needs = {}
    srcs = None
    for k in (M, 3 * M):
        argv = [str(k), str(sel)]
        found, ev = common.problems_of(p, argv, dict(W=W, stack=common.GENEROUS, max_steps=1_500_000), common.ALL_CLASSES)
        info['evs'].append(ev)
        out += [(c, f'k={k}: {d}', argv, ev) for c, d in found]
        if found or ev.res is None or ev.ref.outcome not in ('WIN', 'ERROR', 'DIVERGE') or ev.res.outcome == 'BUDGET':
            return out, info
        if want_need:
            needs[k] = common.min_stack(ev.src, argv, W, False, max_steps=1_500_000)
    info['needs'] = needs
    if want_need and None not in needs.values() and len(needs) == 2:
        if needs[3 * M] != needs[M]:
            out.append(('footprint-grows', f'minimal stack is {needs[M]} words for k={M} iterations but '
                                           f'{needs[3 * M]} words for k={3 * M}', [str(3 * M), str(sel)], info['evs'][1]))
        else:
            argv = [str(3 * M), str(sel)]
            found, ev = common.problems_of(p, argv, dict(W=W, stack=needs[M], max_steps=1_500_000, poison_seed=7),
                                           common.ALL_CLASSES)
            info['evs'].append(ev)
            out += [('tight-history' if c == 'history' else c, f'k={3 * M} at the stack measured for k={M} '
                     f'({needs[M]} words): {d}', argv, ev) for c, d in found]
    return out, info


def case(seed, idx, tier):
    rnd = case_rng(seed, ID, idx)
    W = rnd.choice((2, 2, 3, 4, 8))
    g = G8(rnd, W)
    p = g.build()
    sel = rnd.randrange(0, 6)
    res = common.new_result()
    viol, info = judge(p, sel, W, g.M, want_need=True)
    for ev in info['evs']:
        common.add_counters(res, ev)
    ev0 = info['evs'][0]
    res['key'] = digest(ev0.src, sel, W)
    mon = ev0.mon.result_counts if ev0.mon is not None else {}
    res['nontrivial'] = bool(mon.get('extents_allocated', 0) > 0 and g.exits_used and mon.get('loop_heads', 0) > 0)
    res['counters']['exits_generated'] = {e: 1 for e in g.exits_used}
    if 'needs' in info:
        res['counters']['need_pairs_compared'] = 1 if None not in info['needs'].values() else 0
        res['faults_fired']['stack_exact'] = 1
    res['digest'] = digest(res['key'], [(v[0], v[1]) for v in viol])
    if idx < 2:
        res['sample'] = dict(common.sample_of(p, [str(g.M), str(sel)], ev0, 2500), needs=info.get('needs'))
    if viol:
        cls, detail, argv, ev = viol[0]
        res['violations'].append({'cls': cls, 'detail': detail, 'fingerprint': None,
                                  'payload': common.payload(p, argv, ev, {'sel': sel, 'M': g.M}),
                                  'sample': common.sample_of(p, argv, ev)})
    return res


def replay(pl):
    p = lang.from_json(pl['prog'])
    viol, _ = judge(p, pl['sel'], pl['cfg']['W'], pl['M'])
    return [{'cls': c, 'detail': d, 'fingerprint': None} for c, d, _, _ in viol]
