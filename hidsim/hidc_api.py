"""The only place where hidc (the code under test) is imported: always from
/repo's current working tree, never from a copy or a cache."""
import os
import sys

sys.dont_write_bytecode = True
REPO = os.environ.get('HID_REPO', '/repo')
if REPO not in sys.path:
    sys.path.insert(0, REPO)

from hidc.lexer import SourceCode          # noqa: E402
from hidc.parser import parse              # noqa: E402
from hidc.ast import Environment           # noqa: E402
from hidc.codegen import CodeGen           # noqa: E402
from hidc.errors import CompilerError      # noqa: E402


def compile_source(text, word_size=2, stack_size=500, unchecked=False, lint=False):
    """-> list of assembly lines (bytes).  Raises CompilerError for rejected
    programs; anything else escaping is an internal error of hidc."""
    source = SourceCode.from_string(text)
    env = Environment.empty(unreachable_error=lint)
    parse(source).evaluate(env)
    cg = CodeGen(env, word_size=word_size, stack_size=stack_size, unchecked=unchecked)
    return list(cg.gen_lines())
