#!/usr/bin/env python3
"""Runs the registered quick checks against every seeded change (applied in a scratch
worktree outside /repo and /verif, removed afterwards) and records which checks
catch it in seeded/<id>/meta.json and seeded/RESULTS.md."""
import json, os, subprocess, sys, time

ROOT = '/verif'
WT = '/tmp/seeded_wt'
ORDER = ['C01', 'C02', 'C03', 'C04', 'C05', 'C08', 'C09', 'C10', 'C13', 'C14', 'C15', 'C16', 'C17', 'C18']


def sh(cmd, **kw):
    return subprocess.run(cmd, shell=True, stdout=subprocess.PIPE, stderr=subprocess.STDOUT, text=True, **kw)


def run_check(cid):
    env = dict(os.environ, HID_REPO=WT, VERIF_SEED=os.environ.get('VERIF_SEED', '0'))
    t0 = time.time()
    r = subprocess.run(['timeout', '900', './check', cid, '--tier', 'quick'], cwd=ROOT, env=env,
                       stdout=subprocess.PIPE, stderr=subprocess.STDOUT, text=True)
    lines = r.stdout.splitlines()
    viol = [l for l in lines if l.startswith('VIOLATION')]
    first = next((lines[i - 1].strip() for i, l in enumerate(lines) if l.startswith('VIOLATION') and i), '')
    return {'exit': r.returncode, 'violations_reported': len(viol), 'first': first[:240], 'wall_s': round(time.time() - t0, 1)}


def main():
    own_only = '--own-only' in sys.argv
    fast = '--fast' in sys.argv      # own check only, but recorded as a (partial) matrix row
    only = [a for a in sys.argv[1:] if not a.startswith('--')]
    seed = os.environ.get('VERIF_SEED', '0')
    sh(f'git -C /repo worktree remove --force {WT}')
    sh(f'git -C /repo worktree add --detach {WT} HEAD')
    rows = []
    try:
        for key in sorted(os.listdir(f'{ROOT}/seeded')):
            d = f'{ROOT}/seeded/{key}'
            if not os.path.isdir(d) or (only and key not in only and key.split('-')[0] not in only):
                continue
            meta = json.load(open(f'{d}/meta.json'))
            sh(f'git -C {WT} checkout -q -- . && git -C {WT} clean -fdq')
            a = sh(f'git -C {WT} apply {d}/patch.diff')
            if a.returncode:
                meta['matrix'] = {'error': 'patch does not apply to current HEAD'}
                json.dump(meta, open(f'{d}/meta.json', 'w'), indent=1)
                continue
            own = meta['property']
            results = {own: run_check(own)}
            detected = [own] if results[own]['exit'] == 1 else []
            for cid in ORDER:
                if cid == own or detected or own_only or fast:
                    continue
                results[cid] = run_check(cid)
                if results[cid]['exit'] == 1:
                    detected.append(cid)
            if own_only:
                meta.setdefault('own_check_by_seed', {})[seed] = results[own]['exit'] == 1
                json.dump(meta, open(f'{d}/meta.json', 'w'), indent=1)
                print(key, 'seed', seed, 'own:', results[own]['exit'], flush=True)
                continue
            meta['matrix'] = {'repo_head': sh('git -C /repo rev-parse --short HEAD').stdout.strip(),
                              'verif_head': sh('git -C /verif rev-parse --short HEAD').stdout.strip(),
                              'detected_by': detected, 'own_check_detects': results[own]['exit'] == 1,
                              'results': results}
            json.dump(meta, open(f'{d}/meta.json', 'w'), indent=1)
            rows.append((key, own, detected, results[own]))
            print(key, 'own:', results[own]['exit'], 'detected_by:', detected, flush=True)
    finally:
        sh(f'git -C {WT} checkout -q -- .')
        sh(f'git -C /repo worktree remove --force {WT}')
    if own_only:
        return
    # summary
    lines = ['# Seeded changes vs. checks (quick tier)', '',
             '| id | what it breaks | needs | own check | detected by |', '|---|---|---|---|---|']
    for key in sorted(os.listdir(f'{ROOT}/seeded')):
        mp = f'{ROOT}/seeded/{key}/meta.json'
        if not os.path.exists(mp):
            continue
        m = json.load(open(mp))
        mx = m.get('matrix', {})
        lines.append(f"| {key} | {m['what']} | {m['needs_to_manifest']} | "
                     f"{'caught' if mx.get('own_check_detects') else 'MISSED'} | {', '.join(mx.get('detected_by', [])) or '-'} |")
    open(f'{ROOT}/seeded/RESULTS.md', 'w').write('\n'.join(lines) + '\n')


if __name__ == '__main__':
    main()
