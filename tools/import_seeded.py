#!/usr/bin/env python3
"""Copies the confirmed seeded changes from the sub-agents' scratch worktrees
into /verif/seeded/<id>/ (patch.diff, demonstration, meta.json)."""
import json, os, shutil, sys

META = {
 'C01-1': ('is_safe() treats any .length as a side-effect-free right operand', 'computed left operand (arithmetic result / array element) with `.length` of a computed source (words[i].length, f().length, (s is byte[]).length) on the right: r0 is clobbered'),
 'C01-2': ('continue no longer resets ap', 'a stack array declared in a loop body before an executed `continue`; cumulative leak until iterations x array size exceeds the free stack (depends on -s)'),
 'C01-3': ('compound element assignment spills the old value with the type of the right-hand side', 'int_array[i] op= <byte-typed expression> with the old element outside 0..255'),
 'C02-1': ('TryBlock.exit_modes ignores the handler when the body shows no DEFEAT mode', 'try body that always exits and whose only defeat calls are nested in expressions (int i = !pick(..)): code after the try is dropped, control falls off the end'),
 'C02-2': ('preempt forced-run test compares with func_defeat instead of halt', 'preempt inside a defeat function called from try/STOP with defeat inevitable (virtual defeat): the preempt is skipped'),
 'C02-3': ('?? reloads the saved right value into r_out instead of r0', 'a ?? b where the result is wanted in r1 (declaration/assignment/argument) and b lives on the stack: a is never evaluated, result is always b'),
 'C03-1': ('int->bool normalisation guard uses signed hle', 'int converted to bool as a VALUE (bool b = n is bool; not n; f(x is bool)) with a negative run-time value: both futures of the Turing jump halt'),
 'C03-2': ('continue restores func_defeat instead of the loop\'s defeat', 'a loop nested inside a try/stop body, an executed continue, then a defeat in the same doomed try body: committed halt'),
 'C03-3': ('try handler parsed in the try body\'s context', 'handlers containing you-calls or nested tries are rejected; defeat calls in expression position inside a handler are accepted and halt'),
 'C04-1': ('dynamic-array space guard rewritten as fp-ap >= size+reserve', 'byte buf[n] with -reserve <= n <= -1: size+reserve wraps, ap moves below stack_start, every index passes the bounds check'),
 'C04-2': ('stop handler reloads ap through fp before fp is restored', 'defeat raised inside a called defeat function (fp moved) under try/stop, then an allocation in or after the handler'),
 'C04-3': ('reserve_byte updates the frame high-water mark before pushing the byte', 'the deepest slot of a frame is byte-sized (write(bool) argument, bool-array bit number) and the stack is full to the last byte'),
 'C05-1': ('division guard skipped for immediate divisors', 'run-time dividend with a compile-time zero divisor: x / 0, x % (2-2), const SCALE = 0, x /= 0, arr[i] %= SCALE'),
 'C05-2': ('signed compare in the dynamic-array space guard', 'byte b[n] with n < 0 (byte arrays have no separate length check) or bool f[n] with n within 6 of max_signed'),
 'C05-3': ('IfBlock.preemptive lost its else branch in a refactor', 'defeat function whose only preempt blocks sit in else / else-if branches: no nonlocal_preempt check is emitted'),
 'C08-1': ('reset_ap reloads ap from the newest array instead of the first one released', 'one exit (break/continue/return/block end) that releases two or more arrays'),
 'C08-2': ('stop handler reloads ap before restoring fp', 'defeat raised inside a called defeat function under try/stop; ap is read from the callee frame'),
 'C08-3': ('block cleanup dropped when a block merely may exit early', 'block owning an array that contains a conditional break/return or a defeat call and is left by falling through'),
 'C09-1': ('truth tests strip every TypeCast, not just IntToBool', '`x is byte` used as if/while/and/or condition or as !truth_is_defeat argument with x a non-zero multiple of 256'),
 'C09-2': ('`and` lowering tests the wrong ends-in-goto flag', 'not (X and Y) (also nested in or) as an if/while/for condition with X false and Y true'),
 'C09-3': ('int->bool normalisation compares signed instead of unsigned', 'x is bool / not x in value position with negative x: non 0/1 booleans'),
 'C10-1': ('int literals parsed with int(lit, 0)', 'zero-padded decimal literals (007, 0_9): ValueError escapes instead of a diagnostic'),
 'C10-2': ('CodeGen constructed inside `with open(output)`', 'input that passes the front end but is rejected by CodeGen (no @is_you, bad entry parameter, -s too large, -m 8): exits 1 but leaves / truncates the output file'),
 'C10-3': ('Tracker.pop_level pops oldest-first', 'a block that directly declares two or more dynamic arrays back to back in a checked build: IndexError escapes CodeGen'),
 'C13-1': ('_escape_bytes default quote is the double quote also for character immediates', "the byte 0x27 written as a character literal: yield ''' / .byte ''' does not assemble"),
 'C13-2': ('read_byte_escape returns an int tested for truth', 'the \\x00 spelling of NUL: silently dropped at the end of a string or before a newline escape, LexerError elsewhere'),
 'C13-3': ('identical const array data cached by values only', 'two equal-valued constant arrays of different element width (int vs byte vs packed bool) in one program share storage'),
 'C14-1': ('constant folding of >= uses operator.gt', 'both operands compile-time constants and equal'),
 'C14-2': ('division guard skipped for literal divisors', 'run-time dividend, constant zero divisor (see C05-1; independently produced)'),
 'C14-3': ('<constant> ?? expr folds away the right operand', 'constant left operand of ?? with a side-effecting or faulting right operand'),
 'C15-1': ('preempt forced-run test skipped when return protection is on', 'CHECKED build only: preemptive defeat function called from try/stop with defeat inevitable'),
 'C15-2': ('ap bump of a dynamic array moved inside `if not unchecked`', 'UNCHECKED build: a dynamic array followed by a second stack array while the first is alive'),
 'C15-3': ('is_safe() treats arr[idx] as safe when checks are off', 'UNCHECKED build: left operand computed into r0 and a plain a[i] on the right'),
 'C16-1': ('ExitMode.replace() made strict', 'loop with non-constant condition whose body always exits, or try whose only defeat is nested in an expression: missing-return accepted, nothing emitted after the loop/try'),
 'C16-2': ('loop back-edge elided when the body shows only RETURN/DEFEAT/LOOP', 'constant-true loop at the end of a function whose body contains `continue`'),
 'C16-3': ('terminal-call pattern lost its empty argument list', 'user overloads all_is_win(int) / all_is_broken(string) that return normally are treated as terminal'),
 'C17-1': ('write(int) digit-buffer reservation computed from stack.offset', 'caller holds a live stack array literal, write(int) is its deepest call, stack size inside the digits-word_size byte window, enough digits'),
 'C17-2': ('string -> const byte[] conversion fetches the pointer into r0', 'string held in a variable/parameter/argv (not a literal) converted with `is byte[]` or passed to a const byte[] parameter'),
 'C17-3': ('\\r folded into the \\n case of _escape_bytes', 'byte 0x0D in a string / character / byte-array literal'),
 'C18-1': ('array literal element type picked by iterating a set of types', 'literal mixing mutually coercible types ([1, b]) in a type-sensitive position; result depends on PYTHONHASHSEED'),
 'C18-2': ('reserve_byte high-water mark off by one byte', 'see C04-3 (independently produced): completes at a stack size at which it should overflow, behaviour changes at the next size'),
 'C18-3': ('index scaling by shift instead of multiply', 'int[] / string[] indexing at word sizes that are not a power of two (-m 24)'),
}

def main():
    out_root = '/verif/seeded'
    for key, (title, needs) in sorted(META.items()):
        prop, n = key.split('-')
        src = f'/tmp/wt_{prop}/seeded'
        dst = os.path.join(out_root, key)
        os.makedirs(dst, exist_ok=True)
        shutil.copy(f'{src}/patch{n}.diff', f'{dst}/patch.diff')
        for ext in ('hid', 'txt', 'py'):
            f = f'{src}/demo{n}.{ext}'
            if os.path.exists(f):
                shutil.copy(f, f'{dst}/demo.{ext}')
        for helper in ('_common.py', 'purity.py', 'minisphinx.py'):
            if os.path.exists(f'{src}/{helper}'):
                shutil.copy(f'{src}/{helper}', f'{dst}/{helper}')
        meta_path = f'{dst}/meta.json'
        meta = json.load(open(meta_path)) if os.path.exists(meta_path) else {}
        meta.update({'id': key, 'property': prop, 'what': title, 'needs_to_manifest': needs,
                     'produced_by': 'independent sub-agent given only the property text and a scratch worktree',
                     'confirmed': {'applies_to': 'HEAD of /repo at import time', 'pinned_tests_with_patch': '45 passed',
                                   'demo.py_on_clean_tree': 'exit 0', 'demo.py_with_patch': 'exit 1',
                                   'how': 'patch applied in the scratch worktree /tmp/wt_<prop>, pinned tests run, demo.py run before and after (tools/confirm log)'},
                     'how_to_run_demo': 'copy the files into <worktree>/seeded/ as demoN.* next to its helpers and run demoN.py from the worktree root'})
        json.dump(meta, open(meta_path, 'w'), indent=1)
    print('imported', len(META))

if __name__ == '__main__':
    main()
