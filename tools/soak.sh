#!/bin/sh
# tools/soak.sh <seed>... : every quick check under each seed on the unchanged tree; any non-zero exit is printed.
# Evidence of record is not touched (VERIF_SELFTEST=1).
cd /verif
for seed in "$@"; do
  for id in C01 C02 C03 C04 C05 C08 C09 C10 C13 C14 C15 C16 C17 C18; do
    out=$(VERIF_SELFTEST=1 VERIF_SEED=$seed ./check $id --tier quick 2>&1); rc=$?
    line=$(echo "$out" | grep -E "^$id quick" | tail -1)
    echo "seed=$seed $id rc=$rc $line"
    if [ $rc -ne 0 ]; then echo "$out" | grep -B1 -E "^VIOLATION|HARNESS" | head -6; fi
  done
done
