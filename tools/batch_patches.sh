#!/bin/sh
# tools/batch_patches.sh <PROP> <checks...> : try the three seeded patches of one property
p="$1"; shift
for n in 1 2 3; do
  f=/tmp/wt_$p/seeded/patch$n.diff
  [ -f "$f" ] || continue
  echo "=== $p patch$n"
  /verif/tools/try_patch.sh "$f" "$@"
done
