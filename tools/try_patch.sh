#!/bin/sh
# tools/try_patch.sh <patch.diff> <check id>...   : apply a seeded change to a scratch
# worktree (never /repo), run the pinned tests there, then the given checks against it.
patch="$1"; shift
WT=/tmp/mut
if [ ! -d $WT ]; then git -C /repo worktree add --detach $WT HEAD >/dev/null 2>&1; fi
cd $WT && git checkout -q --detach "$(git -C /repo rev-parse HEAD)" 2>/dev/null; git checkout -q -- . ; git clean -fdq
git apply "$patch" || { echo "PATCH DOES NOT APPLY"; exit 3; }
t=$(/venv/bin/python -m pytest -q -p no:cacheprovider tests/test_lexer.py tests/test_parser.py tests/test_typecheck.py 2>&1 | tail -1)
echo "tests: $t"
cd /verif
for id in "$@"; do
  out=$(HID_REPO=$WT VERIF_SEED=${VERIF_SEED:-0} timeout 900 ./check $id --tier quick 2>&1)
  rc=$?
  nv=$(echo "$out" | grep -c '^VIOLATION')
  echo "$id: exit=$rc violations_reported=$nv :: $(echo "$out" | grep -m1 -B1 '^VIOLATION' | head -1 | cut -c1-300)"
done
cd $WT && git checkout -q -- . && git clean -fdq
