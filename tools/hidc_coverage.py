#!/usr/bin/env python3
"""Line/branch coverage of /repo/hidc under the checks' own workloads (in-process, no pool):
shows which parts of the compiler the generators never reach.
usage: /venv/bin/python tools/hidc_coverage.py [cases per property]"""
import importlib, os, sys, time
sys.path.insert(0, '/verif')
import coverage
N = int(sys.argv[1]) if len(sys.argv) > 1 else 150
cov = coverage.Coverage(branch=True, source=['/repo/hidc'], data_file='/tmp/hidc.coverage')
cov.start()
for pid in ['c01', 'c02', 'c03', 'c04', 'c05', 'c08', 'c09', 'c10', 'c13', 'c14', 'c15', 'c16', 'c17', 'c18']:
    mod = importlib.import_module(f'hidsim.props.{pid}')
    t0 = time.time()
    n = N if pid not in ('c04', 'c18', 'c08') else max(10, N // 6)
    first = 0
    for idx in range(first, first + n):
        try:
            mod.case(0, idx, 'quick')
        except Exception as e:
            print(pid, idx, type(e).__name__, e)
    print(pid, n, 'cases', round(time.time() - t0, 1), 's', flush=True)
cov.stop()
cov.save()
cov.report(show_missing=True, skip_covered=False, file=open('/tmp/hidc_cov.txt', 'w'))
print(open('/tmp/hidc_cov.txt').read())
